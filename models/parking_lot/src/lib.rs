//! Model of `parking_lot` for sequential symbolic execution (Kani ICEs on the real crate's parking
//! code). Same `lock_api` front-end as the real crate; the raw locks never park: acquiring a held lock
//! makes the path infeasible (there is only one thread in these harnesses).
use std::sync::atomic::{AtomicBool, AtomicUsize, Ordering::Relaxed};

fn infeasible() {
  #[cfg(kani)]
  kani::assume(false);
  #[cfg(not(kani))]
  panic!("parking_lot model: contended lock in a single-threaded replay");
}

pub struct RawMutex {
  locked: AtomicBool,
}
unsafe impl lock_api::RawMutex for RawMutex {
  const INIT: RawMutex = RawMutex { locked: AtomicBool::new(false) };
  type GuardMarker = lock_api::GuardSend;
  fn lock(&self) {
    if self.locked.swap(true, Relaxed) {
      infeasible();
    }
  }
  fn try_lock(&self) -> bool {
    !self.locked.swap(true, Relaxed)
  }
  unsafe fn unlock(&self) {
    self.locked.store(false, Relaxed);
  }
}
pub type Mutex<T> = lock_api::Mutex<RawMutex, T>;
pub type MutexGuard<'a, T> = lock_api::MutexGuard<'a, RawMutex, T>;
pub const fn const_mutex<T>(v: T) -> Mutex<T> {
  Mutex::const_new(<RawMutex as lock_api::RawMutex>::INIT, v)
}

/// readers count, or usize::MAX when write-locked
pub struct RawRwLock {
  state: AtomicUsize,
}
unsafe impl lock_api::RawRwLock for RawRwLock {
  const INIT: RawRwLock = RawRwLock { state: AtomicUsize::new(0) };
  type GuardMarker = lock_api::GuardSend;
  fn lock_shared(&self) {
    if !self.try_lock_shared() {
      infeasible();
    }
  }
  fn try_lock_shared(&self) -> bool {
    let s = self.state.load(Relaxed);
    if s == usize::MAX {
      false
    } else {
      self.state.store(s + 1, Relaxed);
      true
    }
  }
  unsafe fn unlock_shared(&self) {
    self.state.store(self.state.load(Relaxed) - 1, Relaxed);
  }
  fn lock_exclusive(&self) {
    if !self.try_lock_exclusive() {
      infeasible();
    }
  }
  fn try_lock_exclusive(&self) -> bool {
    if self.state.load(Relaxed) == 0 {
      self.state.store(usize::MAX, Relaxed);
      true
    } else {
      false
    }
  }
  unsafe fn unlock_exclusive(&self) {
    self.state.store(0, Relaxed);
  }
}
pub type RwLock<T> = lock_api::RwLock<RawRwLock, T>;
pub type RwLockReadGuard<'a, T> = lock_api::RwLockReadGuard<'a, RawRwLock, T>;
pub type RwLockWriteGuard<'a, T> = lock_api::RwLockWriteGuard<'a, RawRwLock, T>;
