#!/usr/bin/env python3
"""Driver for the solver-based checks of excsn/fibre.

  ./check <ID> [--tier quick|thorough] [--only <substr>] [--keep]
  ./check <ID> --replay <path>

For one property: finds the Kani harnesses named c<NN>_q_* (quick) and
c<NN>_t_* (thorough adds these) in /verif/harness/*/src, rebuilds the harness
package against /repo's current working tree (RUSTFLAGS --cfg excsn_fibre_verif),
lets CBMC decide every harness, classifies the verdicts, replays counterexamples
natively (cargo kani playback) before reporting a VIOLATION, and writes
/verif/evidence/<ID>.json.

Exit: 0 held on everything explored (KNOWN-FINDING lines allowed)
      1 VIOLATION (replayed against the real code)
      2 inconclusive (timeout, unwinding assertion, unsatisfied witness, model mismatch)
"""
import argparse, glob, hashlib, json, os, re, shutil, subprocess, sys, time

ROOT = os.path.dirname(os.path.dirname(os.path.abspath(__file__)))
REPO = os.environ.get("VERIF_REPO", "/repo")
WORK = os.path.join(ROOT, ".work")
HARNESS_DIR = os.path.join(ROOT, "harness")
CFG = "--cfg excsn_fibre_verif"

TIER_CAP = {"quick": 600, "thorough": 2400}  # per-harness wall cap (s)
MAX_JOBS = int(os.environ.get("VERIF_JOBS", "7"))


def log(*a):
  print(*a, flush=True)


def env_for_kani():
  e = dict(os.environ)
  e["CARGO_NET_OFFLINE"] = "true"
  e["RUSTFLAGS"] = CFG
  e.pop("RUSTUP_TOOLCHAIN", None)
  return e


def discover(pid):
  """-> {pkg: [(harness, tier, file)]} for property pid (e.g. C03)."""
  pre = pid.lower()
  out = {}
  for pkg in sorted(os.listdir(HARNESS_DIR)):
    src = os.path.join(HARNESS_DIR, pkg, "src")
    if not os.path.isdir(src):
      continue
    for f in sorted(glob.glob(os.path.join(src, "**", "*.rs"), recursive=True)):
      txt = open(f).read()
      names = set()
      code = re.sub(r"//[^\n]*", "", txt)  # harness names: every identifier c<NN>_[qt]_* outside comments
      for m in re.finditer(r"\b(%s_[qt]_[a-z0-9_]+)\b" % pre, code):
        names.add(m.group(1))
      for n in sorted(names):
        tier = "quick" if n.split("_")[1] == "q" else "thorough"
        out.setdefault(pkg, []).append((n, tier, os.path.relpath(f, os.path.join(HARNESS_DIR, pkg))))
  return out


def twin_for(pkg):
  src = os.path.join(HARNESS_DIR, pkg, "src")
  for f in glob.glob(os.path.join(src, "**", "*.rs"), recursive=True):
    m = re.search(r"fn\s+(zz_twin_\w+)\s*\(", open(f).read())
    if m:
      return m.group(1)
  return None


def prepare_pkg(pkg, tag):
  """Copy the harness package into the work dir (so nothing in /verif/harness is
  touched), with a fresh copy of /repo's Cargo.lock."""
  dst = os.path.join(WORK, tag, pkg)
  shutil.rmtree(dst, ignore_errors=True)
  os.makedirs(os.path.dirname(dst), exist_ok=True)
  shutil.copytree(os.path.join(HARNESS_DIR, pkg), dst, ignore=shutil.ignore_patterns("target", "Cargo.lock"))
  # models are referenced relatively (../../models) from harness/<pkg>; keep that valid
  # by rewriting to absolute paths.
  ct = os.path.join(dst, "Cargo.toml")
  s = open(ct).read()
  s = s.replace("../../models/", os.path.join(ROOT, "models") + "/")
  s = s.replace('"/repo/', '"%s/' % REPO)
  open(ct, "w").write(s)
  lock = os.path.join(REPO, "Cargo.lock")
  if os.path.exists(lock):
    shutil.copy(lock, os.path.join(dst, "Cargo.lock"))
  return dst


CBMC_FLAGS = ["--no-malloc-may-fail", "--no-undefined-shift-check", "--no-signed-overflow-check", "--nan-check",
              "--no-self-loops-to-assumptions", "--no-pointer-primitive-check", "--object-bits", "16",
              "--sat-solver", "cadical", "--slice-formula", "--verbosity", "8"]
MEM_CAP_GB = int(os.environ.get("VERIF_MEM_GB", "8"))


def build_goto(pkgdir, harnesses):
  """cargo kani --only-codegen: compiles /repo's current tree + the harness package into one goto
  binary per harness (Kani's own goto-instrument passes included). -> (rc, wall, {harness: (file, unwind)}, log)"""
  tdir = os.path.join(pkgdir, "target")
  cmd = ["cargo", "kani", "--target-dir", tdir, "--only-codegen"]
  for h in harnesses:
    cmd += ["--harness", h]
  t0 = time.time()
  logp = os.path.join(pkgdir, "build.log")
  with open(logp, "w") as lf:
    try:
      p = subprocess.run(cmd, cwd=pkgdir, env=env_for_kani(), stdout=lf, stderr=subprocess.STDOUT, timeout=3600)
      rc = p.returncode
    except subprocess.TimeoutExpired:
      rc = -9
  out = {}
  for mf in glob.glob(os.path.join(tdir, "kani", "*", "debug", "build", "*", "*", "out", "*.kani-metadata.json")):
    try:
      md = json.load(open(mf))
    except Exception:
      continue
    for h in md.get("proof_harnesses", []):
      short = h["pretty_name"].split("::")[-1]
      g = h["goto_file"].replace(".symtab.out", ".out")
      if os.path.exists(g):
        out[short] = (g, h.get("attributes", {}).get("unwind_value"), h["pretty_name"], h.get("original_file"), h["mangled_name"])
  return rc, time.time() - t0, out, logp


RES_RE = re.compile(r"^\[(.+)\.([a-zA-Z_\-]+)\.(\d+)\] line (\d+) (.*): (SUCCESS|FAILURE|UNKNOWN|ERROR)$")


WAKER_ROLES = [
  (r"^std::task::Waker::wake$", "wake"), (r"^std::task::Waker::wake_by_ref$", "wake_by_ref"),
  (r"^<std::task::Waker as std::clone::Clone>::clone$", "clone"), (r"^<std::task::Waker as std::ops::Drop>::drop$", "drop"),
]


def fp_restrictions(pkgdir, gobj):
  """RawWakerVTable calls in core::task::wake are plain function-pointer calls; CBMC resolves those by
  signature, i.e. to every `unsafe fn(*const ())` in the program (all drop glue), which creates spurious
  recursion. harness/<pkg>/fp_restrict.json names the waker vtable functions that exist in this package:
  {"wake": [regex...], "wake_by_ref": [...], "clone": [...], "drop": [...]} (regexes on demangled names).
  CBMC asserts at each restricted call that the pointer is one of the listed targets, so a waker outside
  the list is reported, not ignored."""
  cfgp = os.path.join(pkgdir, "fp_restrict.json")
  if not os.path.exists(cfgp):
    return []
  cfg = json.load(open(cfgp))
  p = subprocess.run(["goto-instrument", "--show-goto-functions", gobj], stdout=subprocess.PIPE, stderr=subprocess.DEVNULL, text=True)
  funcs = re.findall(r"^(\S.*?) /\* (\S+) \*/$", p.stdout, re.M)
  args = []
  for pretty, mangled in funcs:
    for rx, role in WAKER_ROLES:
      if re.match(rx, pretty):
        targets = [m2 for p2, m2 in funcs if any(re.search(t, p2) for t in cfg.get(role, []))]
        if targets:
          args += ["--restrict-function-pointer", "%s.function_pointer_call.1/%s" % (mangled, ",".join(sorted(set(targets))))]
  return args


def finish_goto(pkgdir, name, gfile, mangled):
  """The remaining steps of Kani's goto pipeline after --only-codegen (same commands kani-driver runs),
  plus the waker function-pointer restriction (see fp_restrictions)."""
  out = gfile[:-4] + ".v.out"
  with open(os.path.join(pkgdir, "goto_%s.log" % name), "w") as lf:
    steps = [
      ["goto-cc", gfile, "--function", mangled, "-o", out],
      ["goto-instrument", "--add-library", "--no-malloc-may-fail", out, out],
    ]
    for c in steps:
      if subprocess.run(c, stdout=lf, stderr=subprocess.STDOUT).returncode != 0:
        return None
    fpr = fp_restrictions(pkgdir, out)
    steps = []
    if fpr:
      steps.append(["goto-instrument"] + fpr + [out, out])
    steps += [
      ["goto-instrument", "--generate-function-body-options", "assert-false-assume-false", "--generate-function-body", ".*",
       "--drop-unused-functions", out, out],
      ["goto-instrument", "--ensure-one-backedge-per-target", out, out],
    ]
    for c in steps:
      if subprocess.run(c, stdout=lf, stderr=subprocess.STDOUT).returncode != 0:
        return None
  return out


def unwindset_for(pkgdir, gfile):
  """Per-loop bounds: harness/<pkg>/unwindset.json = [{"fn_re": <regex on the demangled function that owns the
  loop>, "unwind": N}, ...]; resolved against this build's loop ids (goto-instrument --show-loops)."""
  cfgp = os.path.join(pkgdir, "unwindset.json")
  if not os.path.exists(cfgp):
    return None
  cfg = json.load(open(cfgp))
  p = subprocess.run(["goto-instrument", "--show-loops", gfile], stdout=subprocess.PIPE, stderr=subprocess.DEVNULL, text=True)
  pairs = []
  cur = None
  for line in p.stdout.splitlines():
    m = re.match(r"^Loop (\S+):$", line)
    if m:
      cur = m.group(1)
      continue
    m = re.match(r"^\s+file .* function (.*)$", line)
    if m and cur:
      fn = m.group(1)
      for c in cfg:
        if re.search(c["fn_re"], fn):
          pairs.append("%s:%d" % (cur, c["unwind"]))
          break
      cur = None
  return ",".join(pairs) if pairs else None


def run_cbmc_one(pkgdir, name, gfile, unwind, cap, mangled):
  import resource
  logp = os.path.join(pkgdir, "cbmc_%s.log" % name)
  t00 = time.time()
  gfile = finish_goto(pkgdir, name, gfile, mangled)
  if gfile is None:
    return {"id": name, "duration_s": time.time() - t00, "fails": [], "unwind": [], "covers_sat": [], "covers_unsat": [],
            "undetermined": 0, "checks": 0, "funcs": [], "stats": {}, "error": "goto pipeline failed", "rc": -1,
            "log": logp, "status": "Error"}
  uws = unwindset_for(pkgdir, gfile)
  cmd = ["cbmc"] + CBMC_FLAGS + (["--unwind", str(unwind)] if unwind else []) + (["--unwindset", uws] if uws else []) + [gfile]

  def lim():
    b = MEM_CAP_GB << 30
    resource.setrlimit(resource.RLIMIT_AS, (b, b))

  t0 = time.time()
  timed_out = False
  with open(logp, "w") as lf:
    try:
      p = subprocess.run(cmd, stdout=lf, stderr=subprocess.STDOUT, timeout=cap, preexec_fn=lim)
      rc = p.returncode
    except subprocess.TimeoutExpired:
      rc, timed_out = -9, True
  wall = time.time() - t0
  r = {"id": name, "duration_s": wall, "fails": [], "unwind": [], "covers_sat": [], "covers_unsat": [],
       "undetermined": 0, "checks": 0, "funcs": [], "stats": {}, "error": None, "rc": rc, "log": logp,
       "gfile": gfile, "cmd": cmd}
  funcs = set()
  covers = []
  reachable = set()
  cur_file = ""
  in_results = False
  seen_verdict = False
  with open(logp, errors="replace") as f:
    for line in f:
      line = line.rstrip("\n")
      if not in_results:
        m = re.match(r"Runtime (Symex|Solver|Convert SSA|Post-process|Postprocess Equation|decision procedure): ([0-9.eE+-]+)s", line)
        if m:
          k = {"Symex": "runtime_symex_s", "Solver": "runtime_solver_s", "Convert SSA": "runtime_convert_ssa_s",
               "Post-process": "runtime_post_process_s", "Postprocess Equation": "runtime_postprocess_equation_s",
               "decision procedure": "runtime_decision_procedure_s"}[m.group(1)]
          r["stats"][k] = r["stats"].get(k, 0) + float(m.group(2))
          continue
        m = re.match(r"size of program expression: (\d+) steps", line)
        if m:
          r["stats"]["size_program_expression"] = int(m.group(1))
          continue
        m = re.match(r"Generated (\d+) VCC\(s\), (\d+) remaining", line)
        if m:
          r["stats"]["vccs_generated"] = int(m.group(1))
          r["stats"]["vccs_remaining"] = int(m.group(2))
          continue
        m = re.match(r"(\d+) variables, (\d+) clauses", line)
        if m:
          r["stats"]["sat_variables"] = int(m.group(1))
          r["stats"]["sat_clauses"] = int(m.group(2))
          continue
        if line.startswith("** Results:"):
          in_results = True
        continue
      if line.startswith("VERIFICATION "):
        seen_verdict = True
        continue
      m = RES_RE.match(line)
      if not m:
        m2 = re.match(r"^(\S+) function (.*)$", line)
        if m2:
          cur_file = m2.group(1)
        continue
      fn, cls, _n, ln, desc, st = m.groups()
      idm = re.match(r"^\[?(KANI_CHECK_ID_[^\]\s]*)\]?\s*", desc)
      cid = idm.group(1) if idm else None
      desc = re.sub(r"^\[KANI_CHECK_ID_[^\]]*\]\s*", "", desc)
      if cls == "reachability_check":
        if st == "FAILURE" and cid:
          reachable.add(cid)
        continue
      if "fibre" in fn:
        funcs.add(re.sub(r"::<[^>]*>", "", fn)[:140])
      if cls == "cover":
        covers.append((strip_q(desc), st == "FAILURE", cid))
        continue
      r["checks"] += 1
      if st == "FAILURE":
        item = {"desc": strip_q(desc), "function": fn, "file": cur_file, "line": ln, "category": cls,
                "prop": "%s.%s.%s" % (fn, cls, _n)}
        if cls == "unwind" or "unwinding assertion" in desc or "VERIF-BOUND" in desc:
          r["unwind"].append(item)
        else:
          r["fails"].append(item)
      elif st != "SUCCESS":
        r["undetermined"] += 1
  r["funcs"] = sorted(funcs)
  # a witness (by description) is satisfied if any instance is; unsatisfied only if some instance is
  # reachable and none is satisfied; instances in code this instantiation never reaches are ignored
  sat = set(d for d, ok, _ in covers if ok)
  unsat = set(d for d, ok, cid in covers if not ok and d not in sat and (cid is None or cid in reachable))
  r["covers_sat"] = sorted(sat)
  r["covers_unsat"] = sorted(unsat)
  r["covers_unreachable"] = sorted(set(d for d, ok, cid in covers) - sat - unsat)
  if timed_out:
    r["status"] = "Timeout"
  elif not seen_verdict or rc not in (0, 10):
    r["status"] = "Error"
    r["error"] = "cbmc rc=%s (out of memory / crash / no verdict)" % rc
  elif r["fails"] or r["unwind"]:
    r["status"] = "Failure"
  else:
    r["status"] = "Success"
  if r["status"] in ("Success", "Failure") and not r["fails"]:
    try:
      os.remove(logp)  # keep disk use low; failing / inconclusive logs are kept until the work dir is removed
    except OSError:
      pass
  return r


def run_pool(pkgdir, gotos, names, cap, jobs):
  from concurrent.futures import ThreadPoolExecutor
  res = {}
  with ThreadPoolExecutor(max_workers=jobs) as ex:
    futs = {}
    for n in names:
      if n in gotos:
        g, unw, pretty, ofile, mangled = gotos[n]
        futs[n] = ex.submit(run_cbmc_one, pkgdir, n, g, unw, cap, mangled)
    for n, f in futs.items():
      res[n] = f.result()
  return res


def strip_q(s):
  s = s.strip()
  if len(s) >= 2 and s[0] == '"' and s[-1] == '"':
    s = s[1:-1]
  return s


def classify(data, expected):
  """-> per-harness dict"""
  res = {}
  if not data:
    return res
  stats = {c["harness_id"]: c.get("cbmc_stats", {}) for c in data.get("cbmc", [])}
  errs = {c["harness_id"]: c for c in data.get("error_details", [])}
  for r in data.get("verification_results", {}).get("results", []):
    hid = r["harness_id"]
    short = hid.split("::")[-1]
    fails, unwind, covers_sat, covers_unsat, undet = [], [], [], [], 0
    funcs = set()
    nchecks = 0
    for c in r.get("checks", []):
      st = c.get("status", "")
      cat = c.get("category", "")
      fn = c.get("function", "")
      if fn.startswith("fibre") or "fibre::" in fn or "fibre_" in fn:
        funcs.add(re.sub(r"::<.*", "", fn)[:120])
      if cat == "cover":
        (covers_sat if st == "Satisfied" else covers_unsat).append(strip_q(c.get("description", "")))
        continue
      nchecks += 1
      desc = strip_q(c.get("description", ""))
      if st == "Failure":
        loc = c.get("location", {}) or {}
        item = {"desc": desc, "function": fn, "file": loc.get("file", ""), "line": loc.get("line", ""),
                "category": cat}
        if cat == "unwind" or "unwinding assertion" in desc:
          unwind.append(item)
        else:
          fails.append(item)
      elif st in ("Undetermined", "Unknown"):
        undet += 1
    status = r.get("status", "")
    e = errs.get(hid, {})
    res[short] = {
      "id": hid, "status": status, "duration_s": r.get("duration_ms", 0) / 1000.0,
      "fails": fails, "unwind": unwind, "covers_sat": covers_sat, "covers_unsat": covers_unsat,
      "undetermined": undet, "checks": nchecks, "funcs": sorted(funcs), "stats": stats.get(hid, {}),
      "error": e if e.get("has_errors") else None,
    }
  return res


def load_known():
  p = os.path.join(ROOT, "known_findings.json")
  if not os.path.exists(p):
    return {"findings": [], "fixed": []}
  return json.load(open(p))


def is_known(known, pid, harness, desc):
  for k in known.get("findings", []):
    if k.get("property") != pid:
      continue
    if re.fullmatch(k.get("harness_re", ".*"), harness) and k.get("check") == desc:
      return k
  return None


def trace_playback(pkgdir, harness, pretty, r, fail, cap):
  """Counterexample -> Kani concrete-playback unit test, without the (slow) official kani-driver run:
  re-run cbmc on the same goto binary for the one failed property with --trace --json-ui and collect, in
  order, the values returned by kani::any_raw_* (exactly what kani-driver's concrete playback extracts)."""
  cmd = [c for c in r["cmd"] if c not in ("--verbosity", "8")]
  cmd = cmd[:-1] + ["--property", fail["prop"], "--trace", "--json-ui", "--verbosity", "4", r["gfile"]]
  try:
    p = subprocess.run(cmd, stdout=subprocess.PIPE, stderr=subprocess.DEVNULL, text=True, timeout=max(600, min(cap, 1200)))
  except subprocess.TimeoutExpired:
    return None
  try:
    data = json.loads(p.stdout)
  except Exception:
    return None
  vals = []

  def walk(o):
    if isinstance(o, dict):
      if "trace" in o and isinstance(o["trace"], list):
        for st in o["trace"]:
          lhs = st.get("lhs") or ""
          fn = (st.get("sourceLocation") or {}).get("function") or ""
          v = st.get("value") or {}
          if st.get("stepType") == "assignment" and lhs.startswith("goto_symex$$return_value") and "any_raw" in fn \
             and v.get("binary") is not None and v.get("width"):
            bits = v["binary"]
            w = int(v["width"])
            bits = bits.rjust(w, "0")
            by = [int(bits[i:i + 8], 2) for i in range(0, w, 8)]
            by.reverse()  # little endian
            vals.append(by)
        return True
      for x in o.values():
        if walk(x):
          return True
    elif isinstance(o, list):
      for x in o:
        if walk(x):
          return True
    return False

  walk(data)
  h = hashlib.sha1((harness + fail["desc"] + repr(vals)).encode()).hexdigest()[:16]
  fn_name = pretty.split("::")[-1]
  body = "".join("        // %s\n        vec![%s],\n" % (int.from_bytes(bytes(b), "little"), ", ".join(str(x) for x in b)) for b in vals)
  test = ("/// Test generated for harness `%s` (values from the CBMC trace of this run)\n///\n/// Check for `%s`: \"%s\"\n\n"
          "#[test]\nfn kani_concrete_playback_%s_%s() {\n    let concrete_vals: Vec<Vec<u8>> = vec![\n%s    ];\n"
          "    kani::concrete_playback_run(concrete_vals, crate::%s);\n}\n") % (pretty, fail["category"], fail["desc"], fn_name, h, body, pretty)
  return test


def playback_print(pkgdir, harness, cap):
  """Re-run one failing harness with concrete playback; return generated test source or None."""
  tdir = os.path.join(pkgdir, "target_pb")
  cmd = ["cargo", "kani", "--target-dir", tdir, "--output-format", "terse", "--harness", harness,
         "-Z", "concrete-playback", "--concrete-playback=print",
         "-Z", "unstable-options", "--harness-timeout", "%ds" % cap]
  try:
    p = subprocess.run(cmd, cwd=pkgdir, env=env_for_kani(), stdout=subprocess.PIPE, stderr=subprocess.STDOUT,
                       text=True, timeout=cap + 900)
  except subprocess.TimeoutExpired:
    return []
  out = p.stdout
  open(os.path.join(pkgdir, "playback_%s.log" % harness), "w").write(out)
  tests = re.findall(r"```\n(.*?)```", out, re.S)
  return tests


def native_replay(pkg, rel_file, test_src, expect_desc, tag):
  """Insert the generated unit test next to the harness (scratch copy) and run it natively
  against the real code. -> (reproduced: bool, detail)"""
  pdir = prepare_pkg(pkg, tag + "-replay")
  f = os.path.join(pdir, rel_file)
  with open(f, "a") as fh:
    fh.write("\n" + test_src + "\n")
  m = re.search(r"fn\s+(kani_concrete_playback_\w+)", test_src)
  tname = m.group(1)
  ok_any = False
  details = []
  for prof in ([], ["release-like"]):
    # `cargo kani playback` has no --release: the second run emulates the release profile through
    # cargo's profile environment overrides (opt-level 3, no debug assertions / overflow checks)
    e = env_for_kani()
    e["CARGO_TARGET_DIR"] = os.path.join(pdir, "target")
    if prof:
      for k in ("DEV", "TEST"):
        e["CARGO_PROFILE_%s_OPT_LEVEL" % k] = "3"
        e["CARGO_PROFILE_%s_DEBUG_ASSERTIONS" % k] = "false"
        e["CARGO_PROFILE_%s_OVERFLOW_CHECKS" % k] = "false"
    cmd = ["cargo", "kani", "playback", "-Z", "concrete-playback", "--", tname]
    try:
      p = subprocess.run(cmd, cwd=pdir, env=e, stdout=subprocess.PIPE, stderr=subprocess.STDOUT, text=True,
                         timeout=1800)
      out = p.stdout
    except subprocess.TimeoutExpired:
      out = "TIMEOUT"
    try:
      os.makedirs(os.path.join(WORK, "replay-logs"), exist_ok=True)
      open(os.path.join(WORK, "replay-logs", "%s-%s.log" % (tname, "release" if prof else "dev")), "w").write(out)
    except OSError:
      pass
    failed = re.search(r"test \S*%s \.\.\. FAILED" % re.escape(tname), out) is not None
    msg_ok = expect_desc in out if expect_desc else failed
    # arithmetic / bounds / pointer checks surface natively as ordinary panics with other wording
    generic = failed and re.search(r"panicked at", out) is not None
    details.append({"profile": "release" if prof else "dev", "failed": failed, "message_matched": bool(msg_ok and failed)})
    if failed and (msg_ok or generic):
      ok_any = True
  shutil.rmtree(pdir, ignore_errors=True)
  return ok_any, details


def write_evidence(pid, tier, seed, wall, results, pkgs, violations, known_hits, inconclusive, notes):
  evals = 0
  nontriv = 0
  samples = []
  funcs = set()
  tot_checks = 0
  solver_s = 0.0
  symex_s = 0.0
  vccs = 0
  per = []
  for pkg, hs in results.items():
    for h, r in sorted(hs.items()):
      if h.startswith("zz_"):
        continue
      decided = r["status"] in ("Success", "Failure") and not r["unwind"] and r["undetermined"] == 0
      if decided:
        evals += 1
        if r["covers_sat"] and not r["covers_unsat"]:
          nontriv += 1
      funcs.update(r["funcs"])
      tot_checks += r["checks"]
      st = r["stats"] or {}
      solver_s += float(st.get("runtime_solver_s", 0) or 0)
      symex_s += float(st.get("runtime_symex_s", 0) or 0)
      vccs += int(st.get("vccs_generated", 0) or 0)
      per.append({
        "package": pkg, "harness": h, "verdict": r["status"], "wall_s": round(r["duration_s"], 1),
        "checks": r["checks"], "failed": [f["desc"] for f in r["fails"]],
        "witnesses_satisfied": r["covers_sat"], "witnesses_unsatisfied": r["covers_unsat"],
        "unwinding_failures": len(r["unwind"]),
        "symex_s": st.get("runtime_symex_s"), "solver_s": st.get("runtime_solver_s"),
        "vccs": st.get("vccs_generated"), "program_size": st.get("size_program_expression"),
        "bounds": notes.get("bounds", {}).get(h),
      })
  for p in per[:6]:
    samples.append({k: p[k] for k in ("package", "harness", "verdict", "witnesses_satisfied", "bounds", "checks", "wall_s")})
  ev = {
    "property_id": pid, "tier": tier, "seed": seed, "level": "model_checking",
    "coverage": {
      "evaluations": evals,
      "distinct_nontrivial": nontriv,
      "rule": "one evaluation = one Kani harness instantiation (symbolic program/schedule of the stated bounds) "
              "decided by CBMC+cadical on the code compiled from /repo's working tree; non-trivial = every "
              "kani::cover! witness of that harness came back SATISFIED (the situations it exists to examine are reachable)",
      "samples": samples,
      "harnesses": per,
      "functions_encoded": sorted(funcs),
      "functions_encoded_count": len(funcs),
      "queries_discharged": tot_checks,
      "vccs_generated": vccs,
      "solver_time_s": round(solver_s, 2),
      "symex_time_s": round(symex_s, 2),
      "traces_validated_against_impl": notes.get("replays", 0),
      "inconclusive": inconclusive,
      "known_findings_hit": known_hits,
      "engine": "kani 0.68.0 / CBMC 6.11.0 / cadical; encoding regenerated from /repo on this run",
      "exhaustive": False,
      "bounded": True,
    },
    "assumptions": notes.get("assumptions", []),
    "wall_s": round(wall, 1),
    "violations": violations,
  }
  os.makedirs(os.path.join(ROOT, "evidence"), exist_ok=True)
  with open(os.path.join(ROOT, "evidence", "%s.json" % pid), "w") as f:
    json.dump(ev, f, indent=1)


def harness_bounds(pkg, rel_file, names):
  """Extract the bound annotations (macro args / unwind) of each harness from source, for evidence."""
  txt = open(os.path.join(HARNESS_DIR, pkg, rel_file)).read()
  out = {}
  for n in names:
    m = re.search(r"^\s*(\w+)!\(\s*%s\s*,([^;]*?)\);" % re.escape(n), txt, re.M | re.S)
    if m:
      out[n] = {"driver": m.group(1), "args": " ".join(m.group(2).split())}
      continue
    m = re.search(r"((?:#\[[^\]]*\]\s*)+)fn\s+%s\s*\(" % re.escape(n), txt)
    if m:
      u = re.search(r"kani::unwind\((\d+)\)", m.group(1))
      doc = re.findall(r"///\s*(.*)", txt[max(0, m.start() - 600):m.start()])
      out[n] = {"unwind": int(u.group(1)) if u else None, "doc": " ".join(doc[-4:])}
  return out


ASSUMPTIONS_COMMON = [
  "bounded: every claim holds only within the harness bounds listed (program length, capacity, actors, unwind)",
  "fibre built with --cfg excsn_fibre_verif: channels/src/internal/sync/verif.rs replaces std/parking_lot primitives "
  "(sequentially consistent atomics, non-parking mutex, logical threads, virtual clock); IS_LOOM=true sizes",
  "concurrency = nested-preemption class: complete operations of <=k other logical threads inserted at any "
  "synchronisation point of the scrutinised operation; truly overlapping operations and weak memory are outside",
  "Kani unwinding assertions on: a too-small bound is reported as inconclusive, never as success",
]


def main():
  ap = argparse.ArgumentParser()
  ap.add_argument("pid")
  ap.add_argument("--tier", default=os.environ.get("VERIF_TIER", "quick"), choices=["quick", "thorough"])
  ap.add_argument("--only", default=None)
  ap.add_argument("--replay", default=None)
  ap.add_argument("--keep", action="store_true")
  ap.add_argument("--no-evidence", action="store_true")
  a = ap.parse_args()
  pid = a.pid.upper()
  seed = int(os.environ.get("VERIF_SEED", "0") or 0)
  tag = "%s-%s-%d" % (pid, a.tier, os.getpid())
  t0 = time.time()

  if a.replay:
    rp = json.load(open(a.replay))
    ok, det = native_replay(rp["package"], rp["file"], rp["test"], rp["check"], tag)
    log("replay %s: %s %s" % (a.replay, "REPRODUCED" if ok else "not reproduced", det))
    if ok:
      log("VIOLATION property=%s replay=%s" % (rp["property"], a.replay))
      return 1
    return 2

  found = discover(pid)
  cap = int(os.environ.get("VERIF_CAP", TIER_CAP[a.tier]))
  global MEM_CAP_GB, MAX_JOBS
  if a.tier == "thorough":
    # deeper harnesses need more memory each: fewer at a time
    if "VERIF_MEM_GB" not in os.environ:
      MEM_CAP_GB = 18
    if "VERIF_JOBS" not in os.environ:
      MAX_JOBS = 3
  known = load_known()
  results, notes = {}, {"bounds": {}, "replays": 0, "assumptions": list(ASSUMPTIONS_COMMON)}
  inconclusive, violations, known_hits = [], [], []
  any_run = False
  for pkg, hs in found.items():
    sel = [(n, t, f) for (n, t, f) in hs if (t == "quick" or a.tier == "thorough")]
    if a.only:
      sel = [x for x in sel if a.only in x[0]]
    if not sel:
      continue
    any_run = True
    for f in set(x[2] for x in sel):
      notes["bounds"].update(harness_bounds(pkg, f, [x[0] for x in sel if x[2] == f]))
    af = os.path.join(HARNESS_DIR, pkg, "ASSUMPTIONS.txt")
    if os.path.exists(af):
      notes["assumptions"] += [l.strip() for l in open(af) if l.strip()]
    pdir = prepare_pkg(pkg, tag)
    names = [x[0] for x in sel]
    twin = twin_for(pkg)
    run_names = names + ([twin] if twin else [])
    # order by seed so that different seeds exercise different scheduling of the pool
    if seed:
      import random
      random.Random(seed).shuffle(run_names)
    jobs = max(1, min(MAX_JOBS, len(run_names)))
    log("[%s] package %s: %d harnesses, tier %s, cap %ds, jobs %d" % (pid, pkg, len(names), a.tier, cap, jobs))
    rc, bwall, gotos, logp = build_goto(pdir, run_names)
    missing = [n for n in run_names if n not in gotos]
    if rc != 0 or missing:
      tail = subprocess.run("grep -E '^error' -A12 %s | head -60; tail -5 %s" % (logp, logp), shell=True, stdout=subprocess.PIPE, text=True).stdout
      log("INCONCLUSIVE package=%s build failed rc=%s missing=%s\n%s" % (pkg, rc, missing[:5], tail))
      inconclusive.append({"package": pkg, "reason": "build failure rc=%s" % rc, "missing": missing})
      results[pkg] = {}
      continue
    log("  built %d goto binaries in %.0fs" % (len(gotos), bwall))
    res = run_pool(pdir, gotos, run_names, cap, jobs)
    results[pkg] = res
    relfile = {x[0]: x[2] for x in sel}
    for n in run_names:
      r = res.get(n)
      if r is None:
        log("INCONCLUSIVE harness=%s not run" % n)
        inconclusive.append({"harness": n, "reason": "no verdict within cap"})
        continue
      if n.startswith("zz_twin"):
        if not r["fails"]:
          log("INCONCLUSIVE harness=%s vacuity twin did not fail" % n)
          inconclusive.append({"harness": n, "reason": "twin assert(false) not reported"})
        continue
      line = "  %-44s %-8s %6.1fs checks=%d covers=%d/%d symex=%.0fs sat=%.0fs" % (
        n, r["status"], r["duration_s"], r["checks"], len(r["covers_sat"]), len(r["covers_sat"]) + len(r["covers_unsat"]),
        r["stats"].get("runtime_symex_s", 0), r["stats"].get("runtime_solver_s", 0))
      log(line)
      if r["unwind"]:
        log("INCONCLUSIVE harness=%s unwinding assertion failed: %s" % (n, r["unwind"][0]["function"]))
        inconclusive.append({"harness": n, "reason": "unwinding assertion", "where": r["unwind"][0]})
      if r["status"] not in ("Success", "Failure"):
        log("INCONCLUSIVE harness=%s status=%s %s" % (n, r["status"], r.get("error") or ("cap %ds" % cap)))
        inconclusive.append({"harness": n, "reason": "status " + r["status"]})
      if r["fails"]:
        new = []
        for f in r["fails"]:
          k = is_known(known, pid, n, f["desc"])
          if k:
            known_hits.append({"harness": n, "check": f["desc"], "what": k.get("what", "")})
          else:
            new.append(f)
        if new and violations:
          log("  ALSO-FAILED harness=%s checks=%s (not replayed: a violation of this property is already confirmed)" % (n, sorted(set(f["desc"] for f in new))))
          violations.append({"harness": n, "checks": sorted(set(f["desc"] for f in new)), "replay": None})
        elif new:
          reproduced = None
          descs = [f["desc"] for f in new]
          pretty = gotos[n][2] if n in gotos else n
          tried = set()
          for f in new:
            if f["desc"] in tried:
              continue
            tried.add(f["desc"])
            t = trace_playback(pdir, n, pretty, r, f, cap)
            if not t:
              continue
            ok, det = native_replay(pkg, relfile.get(n, ""), t, f["desc"], tag)
            notes["replays"] += 1
            if ok:
              reproduced = (t, f["desc"], det)
              break
          if not reproduced:
            # fallback: official kani-driver concrete playback (slow: JSON UI at verbosity 9)
            tests = playback_print(pdir, n, cap * 3)
            for t in tests:
              m = re.search(r'Check for `\w+`: "+(.*?)"+\s*$', t, re.M)
              tdesc = strip_q(m.group(1)) if m else None
              if tdesc is not None and tdesc not in descs:
                continue
              ok, det = native_replay(pkg, relfile.get(n, ""), t, tdesc, tag)
              notes["replays"] += 1
              if ok:
                reproduced = (t, tdesc, det)
                break
          if reproduced:
            t, tdesc, det = reproduced
            os.makedirs(os.path.join(ROOT, "replay"), exist_ok=True)
            hsh = hashlib.sha1((n + (tdesc or "") + t).encode()).hexdigest()[:10]
            rpath = os.path.join(ROOT, "replay", "%s-%s-%s.json" % (pid, n, hsh))
            json.dump({"property": pid, "package": pkg, "file": relfile.get(n, ""), "harness": n, "check": tdesc,
                       "all_failed_checks": descs, "test": t, "native": det}, open(rpath, "w"), indent=1)
            log("  failed checks: %s" % descs)
            log("VIOLATION property=%s replay=%s" % (pid, rpath))
            violations.append({"harness": n, "checks": descs, "replay": rpath})
          else:
            log("MODEL-MISMATCH harness=%s failed checks %s did not reproduce natively" % (n, descs))
            inconclusive.append({"harness": n, "reason": "counterexample not reproduced natively", "checks": descs})
      elif r["covers_unsat"] and r["status"] == "Success":
        log("INCONCLUSIVE harness=%s witnesses unsatisfied: %s" % (n, r["covers_unsat"]))
        inconclusive.append({"harness": n, "reason": "cover witness unsatisfied", "witnesses": r["covers_unsat"]})
    if not a.keep:
      shutil.rmtree(pdir, ignore_errors=True)
  if not any_run:
    log("no harness registered for %s in tier %s" % (pid, a.tier))
    return 2
  seen = set()
  for k in known_hits:
    key = (k["check"], k["what"])
    if key in seen:
      continue
    seen.add(key)
    log("KNOWN-FINDING: property=%s %s [%s]" % (pid, k["what"], k["check"]))
  wall = time.time() - t0
  if not a.no_evidence and not a.only:
    write_evidence(pid, a.tier, seed, wall, results, found, len(violations), known_hits, inconclusive, notes)
  if not a.keep:
    shutil.rmtree(os.path.join(WORK, tag), ignore_errors=True)
    shutil.rmtree(os.path.join(WORK, tag + "-replay"), ignore_errors=True)
  log("[%s] done in %.0fs: violations=%d inconclusive=%d known=%d" % (pid, wall, len(violations), len(inconclusive), len(known_hits)))
  if violations:
    return 1
  if inconclusive:
    return 2
  return 0


if __name__ == "__main__":
  sys.exit(main())
