use fibre_cache::__verif::{set_now, Entry};
use std::time::Duration;

fn any_duration() -> Duration {
  let secs: u64 = kani::any();
  let nanos: u32 = kani::any();
  kani::assume(secs < (1u64 << 20) && nanos < 1_000_000_000);
  Duration::new(secs, nanos)
}
fn any_small() -> Duration {
  let secs: u64 = kani::any();
  let nanos: u32 = kani::any();
  kani::assume(secs < 1024 && nanos < 1_000_000_000);
  Duration::new(secs, nanos)
}
fn nanos(d: Duration) -> u128 {
  d.as_secs() as u128 * 1_000_000_000u128 + d.subsec_nanos() as u128
}

/// TTL only: inserted at t0 with time-to-live `ttl`, read at t1 >= t0 (accesses in between do not
/// matter): expired iff t1 >= t0 + ttl, including exactly at the deadline.
#[kani::proof]
#[kani::unwind(2)]
fn c12_q_kernel_ttl() {
  let t0 = any_duration();
  let dt = any_duration();
  let ttl = any_duration();
  set_now(t0);
  let e = Entry::new(Some(ttl), None);
  let touched: bool = kani::any();
  if touched {
    e.touch(); // a read refreshes nothing for a TTL
  }
  let t1 = t0 + dt;
  set_now(t1);
  let expired = e.is_expired(None);
  let want = nanos(t1) >= nanos(t0) + nanos(ttl);
  if nanos(t0) + nanos(ttl) > 0 {
    assert!(expired == want, "C12: TTL expiry differs from 'now >= insert + ttl'");
  }
  kani::cover!(nanos(t1) == nanos(t0) + nanos(ttl) && nanos(ttl) > 0, "read exactly at the TTL deadline");
  kani::cover!(expired, "expired");
  kani::cover!(!expired, "live");
}

/// TTI only: inserted at t0, refreshed at ta (optional), read at t1: expired iff
/// t1 >= last_refresh + tti, including exactly at the deadline.
#[kani::proof]
#[kani::unwind(2)]
fn c12_q_kernel_tti() {
  let t0 = any_small();
  let d1 = any_small();
  let d2 = any_small();
  let tti = any_small();
  set_now(t0);
  let e = Entry::new(None, Some(tti));
  let ta = t0 + d1;
  let touched: bool = kani::any();
  set_now(ta);
  if touched {
    e.touch();
  }
  let t1 = ta + d2;
  set_now(t1);
  let expired = e.is_expired(Some(tti));
  let last = if touched { nanos(ta) } else { nanos(t0) };
  let want = nanos(t1) >= last + nanos(tti);
  assert!(expired == want, "C12: TTI expiry differs from 'now >= last refreshing access + tti'");
  kani::cover!(touched && nanos(t1) == last + nanos(tti) && nanos(tti) > 0, "read exactly at the TTI deadline after a refresh");
  kani::cover!(touched && !expired && nanos(t1) >= nanos(t0) + nanos(tti), "kept alive only by the refresh");
}

/// TTL and TTI together: expired iff either deadline passed.
#[kani::proof]
#[kani::unwind(2)]
fn c12_q_kernel_both() {
  let t0 = any_duration();
  let dt = any_duration();
  let ttl = any_duration();
  let tti = any_duration();
  kani::assume(nanos(ttl) > 0);
  set_now(t0);
  let e = Entry::new(Some(ttl), Some(tti));
  let t1 = t0 + dt;
  set_now(t1);
  let expired = e.is_expired(Some(tti));
  let want = nanos(t1) >= nanos(t0) + nanos(ttl) || nanos(t1) >= nanos(t0) + nanos(tti);
  assert!(expired == want, "C12: combined TTL/TTI expiry differs from the definition");
  kani::cover!(expired && nanos(t1) < nanos(t0) + nanos(ttl), "expired by idleness before the TTL");
}

/// vacuity twin: must FAIL
#[kani::proof]
#[kani::unwind(2)]
fn zz_twin_must_fail() {
  set_now(Duration::new(5, 0));
  let e = Entry::new(Some(Duration::new(1, 0)), None);
  set_now(Duration::new(60, 0));
  assert!(!e.is_expired(None), "TWIN: reachability witness");
}
