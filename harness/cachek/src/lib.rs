//! C12 (kernel): the expiry arithmetic of fibre_cache's CacheEntry against its mathematical definition.
#![allow(dead_code, unused_imports)]
#[cfg(kani)]
mod expiry;
