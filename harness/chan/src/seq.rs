//! Generic sequential symbolic-program driver S(N) over the sync handle API of
//! every point-to-point flavour, against a reference FIFO + handle-state model.
//!
//! `P` selects which property's oracle is asserted (1,2,3,4,9); the other
//! oracles are compiled out, so a failing harness is attributed to exactly one
//! property. `OPS` is the bit mask of operations in the alphabet.
use crate::common::*;
use fibre::error::*;
use std::time::Duration;

pub trait Payload: Send + Sized {
  fn mk(id: u8) -> Self;
  fn id(&self) -> u8;
}
impl Payload for u8 {
  fn mk(id: u8) -> u8 {
    id
  }
  fn id(&self) -> u8 {
    *self
  }
}
impl Payload for Tag {
  fn mk(id: u8) -> Tag {
    Tag(id)
  }
  fn id(&self) -> u8 {
    self.0
  }
}

pub trait TxOps<T>: Sized {
  fn try_send(&mut self, v: T) -> Result<(), TrySendError<T>>;
  fn send(&mut self, v: T) -> Result<(), SendError>;
  fn try_send_batch(&mut self, v: Vec<T>) -> Result<usize, TrySendBatchError<T>>;
  fn send_batch(&mut self, v: Vec<T>) -> Result<usize, SendBatchError<T>>;
  fn try_send_batch_mut(&mut self, v: &mut Vec<T>) -> Result<usize, SendError>;
  fn send_batch_mut(&mut self, v: &mut Vec<T>) -> Result<usize, SendError>;
  fn close(&mut self) -> Result<(), CloseError>;
  fn is_closed(&self) -> bool;
  fn len(&self) -> usize;
  fn cap(&self) -> Option<usize>;
  fn dup(&self) -> Option<Self>;
}
pub trait RxOps<T>: Sized {
  fn try_recv(&mut self) -> Result<T, TryRecvError>;
  fn recv(&mut self) -> Result<T, RecvError>;
  fn recv_timeout(&mut self, d: Duration) -> Result<T, RecvErrorTimeout>;
  fn try_recv_batch(&mut self, max: usize) -> Result<Vec<T>, TryRecvError>;
  fn recv_batch(&mut self, max: usize) -> Result<Vec<T>, RecvError>;
  fn close(&mut self) -> Result<(), CloseError>;
  fn len(&self) -> usize;
  fn dup(&self) -> Option<Self>;
}

#[macro_export]
macro_rules! impl_tx {
  ($ty:ty, cap=$cap:tt, dup=$dup:tt) => {
    impl<T: Send> $crate::seq::TxOps<T> for $ty {
      fn try_send(&mut self, v: T) -> Result<(), fibre::error::TrySendError<T>> { <$ty>::try_send(self, v) }
      fn send(&mut self, v: T) -> Result<(), fibre::error::SendError> { <$ty>::send(self, v) }
      fn try_send_batch(&mut self, v: Vec<T>) -> Result<usize, fibre::error::TrySendBatchError<T>> { <$ty>::try_send_batch(self, v) }
      fn send_batch(&mut self, v: Vec<T>) -> Result<usize, fibre::error::SendBatchError<T>> { <$ty>::send_batch(self, v) }
      fn try_send_batch_mut(&mut self, v: &mut Vec<T>) -> Result<usize, fibre::error::SendError> { <$ty>::try_send_batch_mut(self, v) }
      fn send_batch_mut(&mut self, v: &mut Vec<T>) -> Result<usize, fibre::error::SendError> { <$ty>::send_batch_mut(self, v) }
      fn close(&mut self) -> Result<(), fibre::error::CloseError> { <$ty>::close(self) }
      fn is_closed(&self) -> bool { <$ty>::is_closed(self) }
      fn len(&self) -> usize { <$ty>::len(self) }
      $crate::impl_tx!(@cap $ty, $cap);
      $crate::impl_tx!(@dup $dup);
    }
  };
  (@cap $ty:ty, bounded) => { fn cap(&self) -> Option<usize> { Some(<$ty>::capacity(self)) } };
  (@cap $ty:ty, unbounded) => { fn cap(&self) -> Option<usize> { None } };
  (@dup yes) => { fn dup(&self) -> Option<Self> { Some(Clone::clone(self)) } };
  (@dup no) => { fn dup(&self) -> Option<Self> { None } };
}
#[macro_export]
macro_rules! impl_rx {
  ($ty:ty, dup=$dup:tt) => {
    impl<T: Send> $crate::seq::RxOps<T> for $ty {
      fn try_recv(&mut self) -> Result<T, fibre::error::TryRecvError> { <$ty>::try_recv(self) }
      fn recv(&mut self) -> Result<T, fibre::error::RecvError> { <$ty>::recv(self) }
      fn recv_timeout(&mut self, d: std::time::Duration) -> Result<T, fibre::error::RecvErrorTimeout> { <$ty>::recv_timeout(self, d) }
      fn try_recv_batch(&mut self, max: usize) -> Result<Vec<T>, fibre::error::TryRecvError> { <$ty>::try_recv_batch(self, max) }
      fn recv_batch(&mut self, max: usize) -> Result<Vec<T>, fibre::error::RecvError> { <$ty>::recv_batch(self, max) }
      fn close(&mut self) -> Result<(), fibre::error::CloseError> { <$ty>::close(self) }
      fn len(&self) -> usize { <$ty>::len(self) }
      $crate::impl_tx!(@dup $dup);
    }
  };
}

// operation codes
pub const O_TRY_SEND: u32 = 1 << 0;
pub const O_TRY_RECV: u32 = 1 << 1;
pub const O_SEND: u32 = 1 << 2;
pub const O_RECV: u32 = 1 << 3;
pub const O_TRY_SEND_BATCH: u32 = 1 << 4;
pub const O_SEND_BATCH: u32 = 1 << 5;
pub const O_TRY_SEND_BATCH_MUT: u32 = 1 << 6;
pub const O_SEND_BATCH_MUT: u32 = 1 << 7;
pub const O_TRY_RECV_BATCH: u32 = 1 << 8;
pub const O_RECV_BATCH: u32 = 1 << 9;
pub const O_RECV_TIMEOUT: u32 = 1 << 10;
pub const O_CLOSE_TX: u32 = 1 << 11;
pub const O_CLOSE_RX: u32 = 1 << 12;
pub const O_DROP_TX: u32 = 1 << 13;
pub const O_DROP_RX: u32 = 1 << 14;
pub const O_CLONE_TX: u32 = 1 << 15;
pub const O_CLONE_RX: u32 = 1 << 16;
pub const O_NOP: u32 = 1 << 17;
pub const NOPS: u32 = 18;

pub const G_SEND: u32 = O_TRY_SEND | O_SEND;
pub const G_SBATCH: u32 = O_TRY_SEND_BATCH | O_SEND_BATCH;
pub const G_SBATCH_MUT: u32 = O_TRY_SEND_BATCH_MUT | O_SEND_BATCH_MUT;
pub const G_RECV: u32 = O_TRY_RECV | O_RECV | O_RECV_TIMEOUT;
pub const G_RBATCH: u32 = O_TRY_RECV_BATCH | O_RECV_BATCH;
pub const A_BASIC: u32 = O_TRY_SEND | O_TRY_RECV;
pub const A_BATCH: u32 = O_TRY_SEND_BATCH | O_TRY_SEND_BATCH_MUT | O_TRY_RECV_BATCH;
pub const A_BLOCK: u32 = O_SEND | O_RECV | O_RECV_TIMEOUT;
pub const A_BLOCK_BATCH: u32 = O_SEND_BATCH | O_SEND_BATCH_MUT | O_RECV_BATCH;
pub const A_LIFE: u32 = O_CLOSE_TX | O_CLOSE_RX | O_DROP_TX | O_DROP_RX;
pub const A_CLONE: u32 = O_CLONE_TX | O_CLONE_RX;

/// `code` is this step's operation and it is part of the alphabet `OPS`. The
/// constant test comes first so that symbolic execution never enters the code of
/// an operation outside the alphabet.
#[inline(always)]
pub fn on<const OPS: u32>(code: u32, o: u32) -> bool {
  (OPS & o) != 0 && code == o
}

#[inline(always)]
pub fn bit(id: u8) -> u16 {
  if id < 16 { 1u16 << id } else { 0 }
}

macro_rules! chk {
  ($P:ident, $p:expr, $c:expr, $m:literal) => {
    if $P == $p {
      assert!($c, $m);
    }
  };
}

/// Drop bookkeeping is only part of the C09 harnesses; elsewhere leftovers are forgotten (cheaper).
#[inline]
pub fn discard<const P: u8, X>(x: X) {
  if P == 9 {
    drop(x)
  } else {
    std::mem::forget(x)
  }
}

pub const MQ: usize = 8;
pub const MAXB: usize = 2;

pub struct Model {
  pub q: Fifo<MQ>,
  /// handle slot states: 0 = absent (dropped / never created), 1 = open, 2 = closed (close() returned Ok)
  pub tx: [u8; 2],
  pub rx: [u8; 2],
  pub next: u8,
  /// ids whose send reported success
  pub sent_ok: u16,
  /// ids returned by a successful receive (count)
  pub recvd: u16,
  /// ids handed back to the sender inside an error
  pub handed_back: u16,
  /// set once some receive op returned Disconnected on handle i
  pub saw_disc: [bool; 2],
  /// outcome counters for vacuity witnesses
  pub n_full: u8,
  pub n_closed: u8,
  pub n_disc: u8,
  pub n_empty: u8,
  pub n_partial: u8,
  pub n_batch2: u8,
  pub n_close_err: u8,
  pub n_drained: u8,
}
impl Model {
  pub fn new() -> Self {
    Model {
      q: Fifo::new(), tx: [1, 0], rx: [1, 0], next: 0,
      sent_ok: 0, recvd: 0, handed_back: 0, saw_disc: [false; 2],
      n_full: 0, n_closed: 0, n_disc: 0, n_empty: 0, n_partial: 0, n_batch2: 0, n_close_err: 0, n_drained: 0,
    }
  }
  pub fn tx_open(&self) -> u8 {
    (self.tx[0] == 1) as u8 + (self.tx[1] == 1) as u8
  }
  pub fn rx_open(&self) -> u8 {
    (self.rx[0] == 1) as u8 + (self.rx[1] == 1) as u8
  }
  fn fresh(&mut self) -> u8 {
    let v = self.next;
    self.next += 1;
    v
  }
}

/// expectations for one send attempt through handle state `hs`
#[derive(PartialEq, Eq, Clone, Copy)]
pub enum SendExp {
  Closed,
  Full,
  Ok,
}
fn send_exp(m: &Model, hs: u8, cap: Option<usize>) -> SendExp {
  if hs != 1 || m.rx_open() == 0 {
    SendExp::Closed
  } else if cap.map_or(false, |c| m.q.len >= c) {
    SendExp::Full
  } else {
    SendExp::Ok
  }
}

fn on_recv_ok<const P: u8>(m: &mut Model, ri: usize, v: u8) {
  let exp = m.q.pop();
  chk!(P, 1, exp.is_some(), "C01: receive returned a value although nothing is buffered");
  chk!(P, 1, m.sent_ok & bit(v) != 0, "C01: received a value whose send did not report success");
  chk!(P, 1, m.recvd & bit(v) == 0, "C01: value delivered twice");
  chk!(P, 2, exp == Some(v), "C02: receive did not return the oldest buffered value (FIFO)");
  chk!(P, 4, m.rx[ri] == 1, "C04: a closed receiver handle obtained a value");
  chk!(P, 4, !m.saw_disc[ri], "C04: value obtained after Disconnected was observed");
  m.recvd |= bit(v);
}
fn on_recv_none<const P: u8>(m: &mut Model, ri: usize, disconnected: bool) {
  if disconnected {
    m.n_disc |= 1;
    if m.rx[ri] == 1 {
      chk!(P, 4, m.tx_open() == 0, "C04: Disconnected while a sender handle is alive");
      chk!(P, 4, m.q.len == 0, "C04: Disconnected before the buffered values were drained");
    }
    m.saw_disc[ri] = true;
  } else {
    m.n_empty |= 1;
    chk!(P, 1, m.q.len == 0, "C01: Empty/Timeout reported although a value is buffered");
    chk!(P, 4, m.rx[ri] == 1, "C04: closed receiver handle did not reject the operation");
    chk!(P, 4, m.tx_open() > 0, "C04: Empty/Timeout although every sender is gone (must be Disconnected)");
  }
}

pub struct State<TX, RX> {
  pub m: Model,
  pub txs: [Option<TX>; 2],
  pub rxs: [Option<RX>; 2],
  pub cap: Option<usize>,
  /// more than one handle per side may exist (clone in the alphabet)
  pub multi: bool,
}
impl<TX, RX> State<TX, RX> {
  pub fn new(tx0: TX, rx0: RX, cap: Option<usize>) -> Self {
    State { m: Model::new(), txs: [Some(tx0), None], rxs: [Some(rx0), None], cap, multi: false }
  }
}

/// One operation `code` (a concrete O_* bit on every path) through sender slot `ti` / receiver slot `ri`;
/// `k` = batch length / max, `nz` = non-zero timeout. All selectors are concrete on each path (see `run_rest`).
pub fn step_one<T: Payload, TX: TxOps<T>, RX: RxOps<T>, const P: u8, const OPS: u32>(
  st: &mut State<TX, RX>,
  code: u32,
  ti: usize,
  ri: usize,
  k: usize,
  nz: bool,
) {
  let cap = st.cap;
  let m = &mut st.m;
  let txs = &mut st.txs;
  let rxs = &mut st.rxs;
  let max = k;
  {
    // ---------------------------------------------------------------- sends
    if on::<OPS>(code, O_TRY_SEND) || on::<OPS>(code, O_SEND) {
      if let Some(tx) = txs[ti].as_mut() {
        let exp = send_exp(m, m.tx[ti], cap);
        let id = m.fresh();
        if on::<OPS>(code, O_TRY_SEND) {
          match tx.try_send(T::mk(id)) {
            Ok(()) => {
              chk!(P, 3, exp == SendExp::Ok, "C03: try_send succeeded although the channel is full or closed");
              chk!(P, 4, exp != SendExp::Closed, "C04: try_send succeeded on a closed handle / with no receiver");
              m.sent_ok |= bit(id);
              m.q.push(id);
            }
            Err(TrySendError::Full(v)) => {
              m.n_full |= 1;
              chk!(P, 3, exp == SendExp::Full, "C03: try_send reported Full although there is room");
              chk!(P, 1, v.id() == id, "C01: Full did not hand the value back");
              m.handed_back |= bit(id);
            }
            Err(TrySendError::Closed(v)) => {
              m.n_closed |= 1;
              chk!(P, 4, exp == SendExp::Closed, "C04: try_send reported Closed while a receiver is alive");
              chk!(P, 1, v.id() == id, "C01: Closed did not hand the value back");
              m.handed_back |= bit(id);
            }
            Err(TrySendError::Sent(_)) => chk!(P, 1, false, "C01: unexpected Sent error"),
          }
        } else if on::<OPS>(code, O_SEND) {
          kani::assume(exp != SendExp::Full); // a blocking send on a full channel blocks: not a sequential history
          match tx.send(T::mk(id)) {
            Ok(()) => {
              chk!(P, 3, exp == SendExp::Ok, "C03: send completed although the channel is full or closed");
              chk!(P, 4, exp != SendExp::Closed, "C04: send succeeded on a closed handle / with no receiver");
              m.sent_ok |= bit(id);
              m.q.push(id);
            }
            Err(_) => {
              m.n_closed |= 1;
              chk!(P, 4, exp == SendExp::Closed, "C04: send reported Closed while a receiver is alive");
              m.handed_back |= bit(id); // value consumed by the failed call (SendError carries none)
            }
          }
        }
      }
    } else if on::<OPS>(code, O_TRY_SEND_BATCH) || on::<OPS>(code, O_SEND_BATCH) || on::<OPS>(code, O_TRY_SEND_BATCH_MUT) || on::<OPS>(code, O_SEND_BATCH_MUT) {
      if let Some(tx) = txs[ti].as_mut() {
        let mut items: Vec<T> = Vec::with_capacity(MAXB);
        let first = m.next;
        let mut j = 0;
        while j < k {
          items.push(T::mk(m.fresh()));
          j += 1;
        }
        let closed = m.tx[ti] != 1 || m.rx_open() == 0;
        let room = match cap {
          Some(c) => c - m.q.len,
          None => MQ,
        };
        let fit = if closed { 0 } else if k < room { k } else { room };
        let blocking = on::<OPS>(code, O_SEND_BATCH) || on::<OPS>(code, O_SEND_BATCH_MUT);
        if blocking {
          kani::assume(closed || fit == k); // would block otherwise
        }
        // result normalisation: (sent, unsent ids in order, reported_closed, reported_full, ok)
        let mut unsent: [u8; MAXB] = [255; MAXB];
        let mut n_unsent = 0usize;
        let sent: usize;
        let ok: bool;
        let mut rep_closed = false;
        let mut rep_full = false;
        if on::<OPS>(code, O_TRY_SEND_BATCH) {
          match tx.try_send_batch(items) {
            Ok(n) => {
              sent = n;
              ok = true;
            }
            Err(e) => {
              sent = e.sent;
              ok = false;
              rep_closed = matches!(e.reason, BatchSendErrorReason::Closed);
              rep_full = matches!(e.reason, BatchSendErrorReason::Full);
              chk!(P, 1, e.unsent.len() <= MAXB, "C01: batch error returned more items than were passed");
              let mut j = 0;
              while j < e.unsent.len() && j < MAXB {
                unsent[j] = e.unsent[j].id();
                j += 1;
              }
              n_unsent = e.unsent.len();
              discard::<P, _>(e);
            }
          }
        } else if on::<OPS>(code, O_SEND_BATCH) {
          match tx.send_batch(items) {
            Ok(n) => {
              sent = n;
              ok = true;
            }
            Err(e) => {
              sent = e.sent;
              ok = false;
              rep_closed = true;
              chk!(P, 1, e.unsent.len() <= MAXB, "C01: batch error returned more items than were passed");
              let mut j = 0;
              while j < e.unsent.len() && j < MAXB {
                unsent[j] = e.unsent[j].id();
                j += 1;
              }
              n_unsent = e.unsent.len();
              discard::<P, _>(e);
            }
          }
        } else {
          let r = if on::<OPS>(code, O_TRY_SEND_BATCH_MUT) { tx.try_send_batch_mut(&mut items) } else if on::<OPS>(code, O_SEND_BATCH_MUT) { tx.send_batch_mut(&mut items) } else { Ok(0) };
          match r {
            Ok(n) => {
              sent = n;
              ok = true;
            }
            Err(_) => {
              sent = k - if items.len() <= k { items.len() } else { k };
              ok = false;
              rep_closed = true;
            }
          }
          chk!(P, 1, items.len() <= MAXB, "C01: in-place batch grew");
          let mut j = 0;
          while j < items.len() && j < MAXB {
            unsent[j] = items[j].id();
            j += 1;
          }
          n_unsent = items.len();
          discard::<P, _>(items);
        }
        // ---- oracle
        if rep_full { m.n_full |= 1; }
        if rep_closed { m.n_closed |= 1; }
        if sent > 0 && n_unsent > 0 { m.n_partial |= 1; }
        chk!(P, 1, sent + n_unsent == k, "C01: batch: sent + unsent != input length");
        let mut j = 0;
        while j < n_unsent && j < MAXB {
          chk!(P, 1, sent + j < k && unsent[j] == first + (sent + j) as u8, "C01: batch: unsent is not the input suffix in order");
          m.handed_back |= bit(unsent[j]);
          j += 1;
        }
        chk!(P, 3, sent <= fit, "C03: batch admitted more values than there was room for");
        chk!(P, 4, !(closed && sent > 0), "C04: batch sent values through a closed handle / with no receiver");
        if k > 0 {
          chk!(P, 4, !(closed && ok), "C04: batch reported success on a closed handle / with no receiver");
          chk!(P, 4, !(rep_closed && !closed), "C04: batch reported Closed while a receiver is alive");
          chk!(P, 3, !(rep_full && fit == k), "C03: batch reported Full although everything fits");
          chk!(P, 3, closed || sent == fit, "C03: batch sent fewer values than there was room for");
        }
        let mut j = 0;
        while j < sent && j < MAXB {
          let id = first + j as u8;
          m.sent_ok |= bit(id);
          m.q.push(id);
          j += 1;
        }
      }
    // ---------------------------------------------------------------- receives
    } else if on::<OPS>(code, O_TRY_RECV) || on::<OPS>(code, O_RECV) || on::<OPS>(code, O_RECV_TIMEOUT) {
      if let Some(rx) = rxs[ri].as_mut() {
        if on::<OPS>(code, O_TRY_RECV) {
          match rx.try_recv() {
            Ok(v) => on_recv_ok::<P>(m, ri, v.id()),
            Err(TryRecvError::Empty) => on_recv_none::<P>(m, ri, false),
            Err(TryRecvError::Disconnected) => on_recv_none::<P>(m, ri, true),
          }
        } else if on::<OPS>(code, O_RECV) {
          // blocks when empty with a live sender: not a sequential history
          kani::assume(m.rx[ri] != 1 || m.q.len > 0 || m.tx_open() == 0);
          match rx.recv() {
            Ok(v) => on_recv_ok::<P>(m, ri, v.id()),
            Err(RecvError::Disconnected) => on_recv_none::<P>(m, ri, true),
          }
        } else if on::<OPS>(code, O_RECV_TIMEOUT) {
          let d = if nz { Duration::from_nanos(5) } else { Duration::ZERO };
          match rx.recv_timeout(d) {
            Ok(v) => on_recv_ok::<P>(m, ri, v.id()),
            Err(RecvErrorTimeout::Timeout) => on_recv_none::<P>(m, ri, false),
            Err(RecvErrorTimeout::Disconnected) => on_recv_none::<P>(m, ri, true),
          }
        }
      }
    } else if on::<OPS>(code, O_TRY_RECV_BATCH) || on::<OPS>(code, O_RECV_BATCH) {
      if let Some(rx) = rxs[ri].as_mut() {
        if on::<OPS>(code, O_RECV_BATCH) {
          kani::assume(max == 0 || m.rx[ri] != 1 || m.q.len > 0 || m.tx_open() == 0);
        }
        let before = m.q.len;
        let r: Result<Vec<T>, bool> = if on::<OPS>(code, O_TRY_RECV_BATCH) {
          rx.try_recv_batch(max).map_err(|e| matches!(e, TryRecvError::Disconnected))
        } else if on::<OPS>(code, O_RECV_BATCH) {
          rx.recv_batch(max).map_err(|_| true)
        } else {
          Err(false)
        };
        match r {
          Ok(v) => {
            chk!(P, 1, v.len() <= max, "C01: batch receive returned more than max");
            chk!(P, 1, v.len() <= before, "C01: batch receive returned more than was buffered");
            chk!(P, 1, max == 0 || v.len() > 0, "C01: batch receive reported success with no value");
            if v.len() >= 2 { m.n_batch2 |= 1; }
            let mut j = 0;
            while j < v.len() && j < MAXB {
              on_recv_ok::<P>(m, ri, v[j].id());
              j += 1;
            }
            discard::<P, _>(v);
          }
          Err(disc) => on_recv_none::<P>(m, ri, disc),
        }
      }
    // ---------------------------------------------------------------- lifecycle
    } else if on::<OPS>(code, O_CLOSE_TX) {
      if let Some(tx) = txs[ti].as_mut() {
        let r = tx.close();
        chk!(P, 4, r.is_ok() == (m.tx[ti] == 1), "C04: close() on a sender: Ok exactly on the first call");
        if r.is_ok() {
          m.tx[ti] = 2;
        } else {
          m.n_close_err |= 1;
        }
      }
    } else if on::<OPS>(code, O_CLOSE_RX) {
      if let Some(rx) = rxs[ri].as_mut() {
        let r = rx.close();
        chk!(P, 4, r.is_ok() == (m.rx[ri] == 1), "C04: close() on a receiver: Ok exactly on the first call");
        if r.is_ok() {
          m.rx[ri] = 2;
        } else {
          m.n_close_err |= 1;
        }
      }
    } else if on::<OPS>(code, O_DROP_TX) {
      if txs[ti].is_some() {
        txs[ti] = None;
        m.tx[ti] = 0;
      }
    } else if on::<OPS>(code, O_DROP_RX) {
      if rxs[ri].is_some() {
        rxs[ri] = None;
        m.rx[ri] = 0;
      }
    } else if on::<OPS>(code, O_CLONE_TX) {
      let oi = 1 - ti;
      if txs[oi].is_none() {
        if let Some(tx) = txs[ti].as_ref() {
          if m.tx[ti] == 1 {
            if let Some(c) = tx.dup() {
              txs[oi] = Some(c);
              m.tx[oi] = 1;
            }
          }
        }
      }
    } else if on::<OPS>(code, O_CLONE_RX) {
      let oi = 1 - ri;
      if rxs[oi].is_none() {
        if let Some(rx) = rxs[ri].as_ref() {
          if m.rx[ri] == 1 {
            if let Some(c) = rx.dup() {
              rxs[oi] = Some(c);
              m.rx[oi] = 1;
            }
          }
        }
      }
    }
    // ---------------------------------------------------------------- per-step invariants
    if P == 3 {
      if let (Some(c), Some(tx)) = (cap, txs[0].as_ref()) {
        if m.rx_open() > 0 {
          assert!(tx.len() <= c, "C03: len() exceeds capacity()");
          assert!(tx.len() == m.q.len, "C03: len() differs from the number of buffered values");
        }
      }
    }
  }
}

/// Calls `f(i)` for the solver-chosen `i <= max`, with `i` a constant on each path: everything that
/// depends on it (allocation sizes, loop counts) stays concrete inside `f`.
pub fn with_pick<F: FnMut(usize)>(max: usize, mut f: F) {
  let x: usize = kani::any();
  kani::assume(x <= max);
  let mut i = 0;
  while i <= max {
    if x == i {
      f(i);
      return;
    }
    i += 1;
  }
}

/// `n` more symbolic steps over `OPS`, then `fin`. Every selector (operation, handle slot, batch
/// length, timeout kind) is chosen by the solver but dispatched so that it is a constant inside the
/// branch that executes it; the rest of the program runs inside that branch (no state merging).
pub fn run_rest<T: Payload, TX: TxOps<T>, RX: RxOps<T>, F: Fn(&mut State<TX, RX>), const P: u8, const OPS: u32>(
  st: &mut State<TX, RX>,
  n: usize,
  fin: &F,
) {
  if n == 0 {
    fin(st);
    return;
  }
  let op: u32 = kani::any();
  kani::assume(op < NOPS && (OPS & (1 << op)) != 0);
  macro_rules! d {
    ($i:expr) => {
      if (OPS >> $i) & 1 != 0 && op == $i {
        let code: u32 = 1 << $i;
        let multi = st.multi;
        let needs_k = code & (O_TRY_SEND_BATCH | O_SEND_BATCH | O_TRY_SEND_BATCH_MUT | O_SEND_BATCH_MUT | O_TRY_RECV_BATCH | O_RECV_BATCH) != 0;
        let needs_nz = code == O_RECV_TIMEOUT;
        with_pick(if multi { 1 } else { 0 }, |ti| {
          with_pick(if multi { 1 } else { 0 }, |ri| {
            with_pick(if needs_k { MAXB } else if needs_nz { 1 } else { 0 }, |k| {
              step_one::<T, TX, RX, P, OPS>(st, code, ti, ri, k, k != 0);
              run_rest::<T, TX, RX, F, P, OPS>(st, n - 1, fin);
            })
          })
        });
        return;
      }
    };
  }
  d!(0); d!(1); d!(2); d!(3); d!(4); d!(5); d!(6); d!(7); d!(8); d!(9); d!(10); d!(11); d!(12); d!(13); d!(14); d!(15); d!(16); d!(17);
}

/// End of run for C01: drop every sender, then drain through receiver 0 until
/// Disconnected: exactly the successfully sent and not yet received values arrive.
pub fn drain_and_check<T: Payload, TX: TxOps<T>, RX: RxOps<T>, const P: u8>(st: &mut State<TX, RX>, budget: usize) {
  let m = &mut st.m;
  let txs = &mut st.txs;
  let rxs = &mut st.rxs;
  if m.rx[0] != 1 {
    return;
  }
  txs[0] = None;
  txs[1] = None;
  m.tx = [0, 0];
  let rx = rxs[0].as_mut().unwrap();
  let mut got = 0usize;
  let mut disc = false;
  let mut i = 0;
  while i < budget {
    match rx.try_recv() {
      Ok(v) => {
        on_recv_ok::<P>(m, 0, v.id());
        got += 1;
      }
      Err(TryRecvError::Disconnected) => {
        on_recv_none::<P>(m, 0, true);
        disc = true;
        break;
      }
      Err(TryRecvError::Empty) => {
        on_recv_none::<P>(m, 0, false);
        break;
      }
    }
    i += 1;
  }
  chk!(P, 1, m.q.len == 0 || !disc, "C01: Disconnected although sent values were never delivered");
  chk!(P, 4, disc || i == budget, "C04: drained channel with no sender did not report Disconnected");
  if got > 0 && disc {
    m.n_drained |= 1;
  }
}


/// `N` symbolic steps over `OPS` with state merging after every step (cheap for the simple
/// operations; batch length / max / timeout kind are still dispatched concretely).
pub fn steps<T: Payload, TX: TxOps<T>, RX: RxOps<T>, const P: u8, const N: usize, const OPS: u32>(st: &mut State<TX, RX>) {
  let mut s = 0;
  while s < N {
    run_rest::<T, TX, RX, _, P, OPS>(st, 1, &|_st: &mut State<TX, RX>| {});
    s += 1;
  }
}

/// Merging variant of the phased program: symbolic prefix counts (a sends, b receives, c sends) by
/// guarded loops, one optional lifecycle event, `NT` steps over `OPS`, then `fin` once on the merged state.
pub fn phased_merge<T: Payload, TX: TxOps<T>, RX: RxOps<T>, F: FnOnce(&mut State<TX, RX>), const P: u8, const K: usize, const LIFE: u32, const NT: usize, const OPS: u32>(
  tx: TX,
  rx: RX,
  cap: Option<usize>,
  multi: bool,
  fin: F,
) {
  let mut st = State::new(tx, rx, cap);
  st.multi = multi;
  let a: usize = kani::any();
  let b: usize = kani::any();
  let c: usize = kani::any();
  kani::assume(a <= K && b <= a && c <= K);
  let mut i = 0;
  while i < K {
    if i < a {
      step_one::<T, TX, RX, P, O_TRY_SEND>(&mut st, O_TRY_SEND, 0, 0, 0, false);
    }
    i += 1;
  }
  i = 0;
  while i < K {
    if i < b {
      step_one::<T, TX, RX, P, O_TRY_RECV>(&mut st, O_TRY_RECV, 0, 0, 0, false);
    }
    i += 1;
  }
  i = 0;
  while i < K {
    if i < c {
      step_one::<T, TX, RX, P, O_TRY_SEND>(&mut st, O_TRY_SEND, 0, 0, 0, false);
    }
    i += 1;
  }
  if LIFE != 0 {
    steps::<T, TX, RX, P, 1, LIFE>(&mut st);
  }
  steps::<T, TX, RX, P, NT, OPS>(&mut st);
  fin(&mut st);
  std::mem::forget(st);
}

/// Phased program: the solver picks a prefix (a try_sends, b try_recvs, c try_sends: every fill level
/// and ring rotation), one optional lifecycle event from `LIFE`, then `NT` steps over `OPS`; `fin` ends
/// the run (drain / teardown / witnesses). A fresh channel is built on every path.
pub fn phased<T: Payload, TX: TxOps<T>, RX: RxOps<T>, MK: Fn() -> (TX, RX), F: Fn(&mut State<TX, RX>), const P: u8, const LIFE: u32, const OPS: u32>(
  mk: MK,
  cap: Option<usize>,
  multi: bool,
  kmax: usize,
  rot: bool,
  nt: usize,
  fin: F,
) {
  with_pick(kmax, |a| {
    with_pick(if rot && a > 0 { 1 } else { 0 }, |b| {
      with_pick(if rot { b } else { 0 }, |c| {
        let (tx, rx) = mk();
        let mut st = State::new(tx, rx, cap);
        st.multi = multi;
        let mut i = 0;
        while i < a {
          step_one::<T, TX, RX, P, O_TRY_SEND>(&mut st, O_TRY_SEND, 0, 0, 0, false);
          i += 1;
        }
        i = 0;
        while i < b {
          step_one::<T, TX, RX, P, O_TRY_RECV>(&mut st, O_TRY_RECV, 0, 0, 0, false);
          i += 1;
        }
        i = 0;
        while i < c {
          step_one::<T, TX, RX, P, O_TRY_SEND>(&mut st, O_TRY_SEND, 0, 0, 0, false);
          i += 1;
        }
        if LIFE != 0 {
          run_rest::<T, TX, RX, _, P, LIFE>(&mut st, 1, &|st: &mut State<TX, RX>| {
            run_rest::<T, TX, RX, F, P, OPS>(st, nt, &fin);
          });
        } else {
          run_rest::<T, TX, RX, F, P, OPS>(&mut st, nt, &fin);
        }
        std::mem::forget(st);
      })
    })
  });
}

/// C09 end of run: drop every handle (order chosen by the solver), then every id created so far
/// must have been dropped exactly once.
pub fn teardown_and_count<T: Payload, TX: TxOps<T>, RX: RxOps<T>>(st: &mut State<TX, RX>) {
  let m = &mut st.m;
  let txs = &mut st.txs;
  let rxs = &mut st.rxs;
  let tx_first: bool = kani::any();
  if tx_first {
    txs[0] = None;
    txs[1] = None;
    rxs[0] = None;
    rxs[1] = None;
  } else {
    rxs[0] = None;
    rxs[1] = None;
    txs[0] = None;
    txs[1] = None;
  }
  assert!(m.next <= 8, "VERIF-BOUND: more values created than the teardown check covers");
  macro_rules! ck {
    ($id:expr) => {
      if $id < m.next {
        assert!(drops($id) >= 1, "C09: a value entrusted to the channel was never dropped (leak)");
        assert!(drops($id) <= 1, "C09: a value was dropped twice");
      }
    };
  }
  ck!(0); ck!(1); ck!(2); ck!(3); ck!(4); ck!(5); ck!(6); ck!(7);
  kani::cover!(m.q.len > 0, "handles dropped with values still buffered");
}

/// Generic harness generator over a channel constructor. `mode=merge`: symbolic prefix with state
/// merging; `mode=tree`: every selector concrete on its path (needed where allocation sizes depend on it).
#[macro_export]
macro_rules! chan_seq {
  ($name:ident, $p:expr, mode=merge, T=$T:ty, new=$new:expr, cap=$cap:expr, multi=$multi:expr, k=$k:expr, life=$life:expr, nt=$nt:expr, ops=$ops:expr,
   unwind=$unw:expr, drain=$drain:expr, covers=[$( |$m:ident| $e:expr => $d:literal ),* $(,)?]) => {
    #[kani::proof]
    #[kani::unwind($unw)]
    fn $name() {
      let (tx, rx) = $new;
      $crate::seq::phased_merge::<$T, _, _, _, $p, $k, { $life }, $nt, { $ops }>(tx, rx, $cap, $multi, |st| {
        $( { let f = |$m: &$crate::seq::Model| -> bool { $e }; kani::cover!(f(&st.m), $d); } )*
        if $p == 9 {
          $crate::seq::teardown_and_count::<$T, _, _>(st);
        } else if $drain > 0 {
          $crate::seq::drain_and_check::<$T, _, _, $p>(st, $drain);
        }
      });
    }
  };
  ($name:ident, $p:expr, mode=tree, T=$T:ty, new=$new:expr, cap=$cap:expr, multi=$multi:expr, k=$k:expr, rot=$rot:expr, life=$life:expr, nt=$nt:expr, ops=$ops:expr,
   unwind=$unw:expr, drain=$drain:expr, covers=[$( |$m:ident| $e:expr => $d:literal ),* $(,)?]) => {
    #[kani::proof]
    #[kani::unwind($unw)]
    fn $name() {
      $crate::seq::phased::<$T, _, _, _, _, $p, { $life }, { $ops }>(
        || $new,
        $cap,
        $multi,
        $k,
        $rot,
        $nt,
        |st| {
          $( { let f = |$m: &$crate::seq::Model| -> bool { $e }; kani::cover!(f(&st.m), $d); } )*
          if $p == 9 {
            $crate::seq::teardown_and_count::<$T, _, _>(st);
          } else if $drain > 0 {
            $crate::seq::drain_and_check::<$T, _, _, $p>(st, $drain);
          }
        },
      );
    }
  };
}
