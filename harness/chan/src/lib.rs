//! Kani harnesses over the real fibre channels (built with --cfg excsn_fibre_verif).
#![allow(dead_code, unused_imports, unused_macros)]

pub mod common;
#[cfg(kani)]
mod spsc_seq;
#[cfg(kani)]
mod spsc_conc;
