//! Kani harnesses over the real fibre channels (built with --cfg excsn_fibre_verif).
#![allow(dead_code, unused_imports, unused_macros, unused_variables, unused_mut)]

pub mod common;
#[cfg(kani)]
pub mod seq;
#[cfg(kani)]
mod flavours;
#[cfg(kani)]
mod spsc_seq;
#[cfg(kani)]
mod seq_gen;
#[cfg(kani)]
mod spsc_conc;
#[cfg(kani)]
mod locks;
#[cfg(kani)]
mod spsc_async;
#[cfg(kani)]
mod oneshot;
#[cfg(kani)]
mod rendezvous;
