//! C06 on the async SPSC channel, at poll granularity with counting wakers (futures pinned in stack slots).
use crate::common::*;
use fibre::error::*;
use fibre::spsc::{self, BoundedAsyncReceiver as ARx, BoundedAsyncSender as ATx};
use futures_core::Stream;
use std::future::Future;
use std::pin::Pin;
use std::task::{Context, Poll};

fn poll_slot<F: Future>(slot: &mut Option<F>, w: usize) -> Poll<F::Output> {
  let f = unsafe { Pin::new_unchecked(slot.as_mut().unwrap()) };
  let wk = waker(w);
  let mut cx = Context::from_waker(&wk);
  f.poll(&mut cx)
}
fn poll_next(rx: &mut ARx<u8>, w: usize) -> Poll<Option<u8>> {
  let wk = waker(w);
  let mut cx = Context::from_waker(&wk);
  Pin::new(rx).poll_next(&mut cx)
}

/// A pending recv future re-polled with a different waker: the send must wake the latest waker; the
/// woken future then completes with the value.
#[kani::proof]
#[kani::unwind(4)]
fn c06_q_spsc_recv_repoll_other_waker() {
  let (mut tx, mut rx) = spsc::bounded_async::<u8>(2);
  let mut f = Some(rx.recv());
  assert!(poll_slot(&mut f, 0).is_pending(), "C06: recv ready on an empty channel");
  let again: bool = kani::any();
  let last = if again {
    assert!(poll_slot(&mut f, 1).is_pending(), "C06: recv ready on an empty channel");
    1
  } else {
    0
  };
  assert!(tx.try_send(7).is_ok(), "C03: try_send into an empty channel failed");
  assert!(wakes(last) >= 1, "C06: pending recv not woken (through its latest waker) when a value arrived");
  match poll_slot(&mut f, last) {
    Poll::Ready(Ok(v)) => assert!(v == 7, "C01: recv returned a value never sent"),
    _ => assert!(false, "C06: woken recv did not complete"),
  }
  kani::cover!(again, "re-polled with another waker");
  std::mem::forget(f);
}

/// Disconnect wakes a pending recv, which then reports Disconnected.
#[kani::proof]
#[kani::unwind(4)]
fn c06_q_spsc_recv_woken_on_disconnect() {
  let (tx, mut rx) = spsc::bounded_async::<u8>(2);
  let mut f = Some(rx.recv());
  assert!(poll_slot(&mut f, 0).is_pending(), "C06: recv ready on an empty channel");
  let close: bool = kani::any();
  if close {
    let _ = tx.close();
  } else {
    drop(tx);
  }
  assert!(wakes(0) >= 1, "C06: pending recv not woken when the sender went away");
  match poll_slot(&mut f, 0) {
    Poll::Ready(Err(_)) => {}
    _ => assert!(false, "C04: recv did not report Disconnected after the sender went away"),
  }
  std::mem::forget(f);
}

/// A pending send on a full channel is woken by a receive and then completes; order is kept.
#[kani::proof]
#[kani::unwind(4)]
fn c06_q_spsc_send_woken_by_recv() {
  let (mut tx, mut rx) = spsc::bounded_async::<u8>(1);
  assert!(tx.try_send(1).is_ok(), "C03: try_send into an empty channel failed");
  let mut f = Some(tx.send(2));
  assert!(poll_slot(&mut f, 0).is_pending(), "C03: send completed on a full channel");
  assert!(rx.try_recv() == Ok(1), "C02: FIFO");
  assert!(wakes(0) >= 1, "C06: pending send not woken when space appeared");
  match poll_slot(&mut f, 0) {
    Poll::Ready(Ok(())) => {}
    _ => assert!(false, "C06: woken send did not complete"),
  }
  f = None;
  assert!(rx.try_recv() == Ok(2), "C01: value of a completed send not delivered");
}

/// Cancelling a pending send: the value is not delivered later (no ghost delivery), the channel still works.
#[kani::proof]
#[kani::unwind(4)]
fn c06_q_spsc_cancel_pending_send() {
  let (mut tx, mut rx) = spsc::bounded_async::<u8>(1);
  assert!(tx.try_send(1).is_ok(), "C03: try_send into an empty channel failed");
  let mut f = Some(tx.send(2));
  assert!(poll_slot(&mut f, 0).is_pending(), "C03: send completed on a full channel");
  let after_wake: bool = kani::any();
  if after_wake {
    assert!(rx.try_recv() == Ok(1), "C02: FIFO");
    f = None; // dropped after it was woken, before re-poll
    assert!(rx.try_recv() == Err(TryRecvError::Empty), "C06: cancelled send delivered its value");
  } else {
    f = None;
    assert!(rx.try_recv() == Ok(1), "C02: FIFO");
    assert!(rx.try_recv() == Err(TryRecvError::Empty), "C06: cancelled send delivered its value");
  }
  assert!(tx.try_send(3).is_ok(), "C06: channel unusable after a cancelled send");
  assert!(rx.try_recv() == Ok(3), "C01: value lost after a cancelled send");
  kani::cover!(after_wake, "cancelled after the wake");
}

/// Cancelling a pending recv (before or after it was woken) loses nothing: the value is still there.
#[kani::proof]
#[kani::unwind(4)]
fn c06_q_spsc_cancel_pending_recv() {
  let (mut tx, mut rx) = spsc::bounded_async::<u8>(2);
  let mut f = Some(rx.recv());
  assert!(poll_slot(&mut f, 0).is_pending(), "C06: recv ready on an empty channel");
  let after_wake: bool = kani::any();
  if after_wake {
    assert!(tx.try_send(7).is_ok(), "C03: try_send failed");
    f = None;
  } else {
    f = None;
    assert!(tx.try_send(7).is_ok(), "C03: try_send failed");
  }
  assert!(rx.try_recv() == Ok(7), "C06: cancelling a recv future lost a value");
  // a later future registers afresh and is woken
  let mut g = Some(rx.recv());
  assert!(poll_slot(&mut g, 1).is_pending(), "C06: recv ready on an empty channel");
  assert!(tx.try_send(8).is_ok(), "C03: try_send failed");
  assert!(wakes(1) >= 1, "C06: recv future created after a cancellation was not woken");
  std::mem::forget(g);
}

/// Stream::poll_next mixed with try_recv / a cancelled recv future: a Pending poll_next is always armed.
#[kani::proof]
#[kani::unwind(4)]
fn c06_q_spsc_stream_rearms() {
  let (mut tx, mut rx) = spsc::bounded_async::<u8>(2);
  assert!(poll_next(&mut rx, 0).is_pending(), "C06: poll_next ready on an empty channel");
  assert!(tx.try_send(1).is_ok(), "C03: try_send failed");
  assert!(wakes(0) == 1, "C06: pending stream poll not woken by a send");
  let via_future: bool = kani::any();
  if via_future {
    // the task takes the item through a recv future, polls another one once and cancels it
    let mut f = Some(rx.recv());
    match poll_slot(&mut f, 1) {
      Poll::Ready(Ok(v)) => assert!(v == 1, "C02: FIFO"),
      _ => assert!(false, "C06: recv not ready although a value is buffered"),
    }
    f = None;
    let mut g = Some(rx.recv());
    assert!(poll_slot(&mut g, 1).is_pending(), "C06: recv ready on an empty channel");
    g = None;
  } else {
    assert!(rx.try_recv() == Ok(1), "C02: FIFO");
  }
  let w0 = wakes(0);
  assert!(poll_next(&mut rx, 0).is_pending(), "C06: poll_next ready on an empty channel");
  assert!(tx.try_send(2).is_ok(), "C03: try_send failed");
  assert!(wakes(0) > w0, "C06: second pending stream poll not woken (stale registration)");
  match poll_next(&mut rx, 0) {
    Poll::Ready(Some(v)) => assert!(v == 2, "C02: FIFO"),
    _ => assert!(false, "C06: woken stream poll did not yield the value"),
  }
  drop(tx);
  match poll_next(&mut rx, 0) {
    Poll::Ready(None) => {}
    _ => assert!(false, "C04: stream did not end after the sender went away"),
  }
  kani::cover!(via_future, "item taken through a recv future");
}
