//! C06 on the async SPSC channel, at poll granularity with counting wakers (futures pinned in stack slots).
use crate::common::*;
use fibre::error::*;
use fibre::spsc::{self, BoundedAsyncReceiver as ARx, BoundedAsyncSender as ATx};
use futures_core::Stream;
use std::future::Future;
use std::pin::Pin;
use std::task::{Context, Poll};

fn poll_slot<F: Future>(slot: &mut Option<F>, w: usize) -> Poll<F::Output> {
  let f = unsafe { Pin::new_unchecked(slot.as_mut().unwrap()) };
  let wk = waker(w);
  let mut cx = Context::from_waker(&wk);
  f.poll(&mut cx)
}
fn poll_next(rx: &mut ARx<u8>, w: usize) -> Poll<Option<u8>> {
  let wk = waker(w);
  let mut cx = Context::from_waker(&wk);
  Pin::new(rx).poll_next(&mut cx)
}

/// A pending recv future re-polled with a different waker: the send must wake the latest waker; the
/// woken future then completes with the value.
#[kani::proof]
#[kani::unwind(4)]
fn c06_q_spsc_recv_repoll_other_waker() {
  let (mut tx, mut rx) = spsc::bounded_async::<u8>(2);
  let mut f = Some(rx.recv());
  assert!(poll_slot(&mut f, 0).is_pending(), "C06: recv ready on an empty channel");
  let again: bool = kani::any();
  let last = if again {
    assert!(poll_slot(&mut f, 1).is_pending(), "C06: recv ready on an empty channel");
    1
  } else {
    0
  };
  assert!(tx.try_send(7).is_ok(), "C03: try_send into an empty channel failed");
  assert!(wakes(last) >= 1, "C06: pending recv not woken (through its latest waker) when a value arrived");
  match poll_slot(&mut f, last) {
    Poll::Ready(Ok(v)) => assert!(v == 7, "C01: recv returned a value never sent"),
    _ => assert!(false, "C06: woken recv did not complete"),
  }
  kani::cover!(again, "re-polled with another waker");
  std::mem::forget(f);
}

/// Disconnect wakes a pending recv, which then reports Disconnected.
#[kani::proof]
#[kani::unwind(4)]
fn c06_q_spsc_recv_woken_on_disconnect() {
  let (tx, mut rx) = spsc::bounded_async::<u8>(2);
  let mut f = Some(rx.recv());
  assert!(poll_slot(&mut f, 0).is_pending(), "C06: recv ready on an empty channel");
  let close: bool = kani::any();
  if close {
    let _ = tx.close();
  } else {
    drop(tx);
  }
  assert!(wakes(0) >= 1, "C06: pending recv not woken when the sender went away");
  match poll_slot(&mut f, 0) {
    Poll::Ready(Err(_)) => {}
    _ => assert!(false, "C04: recv did not report Disconnected after the sender went away"),
  }
  std::mem::forget(f);
  kani::cover!(true, "scenario ran to its end");
}

/// A pending send on a full channel is woken by a receive and then completes; order is kept.
#[kani::proof]
#[kani::unwind(4)]
fn c06_q_spsc_send_woken_by_recv() {
  let (mut tx, mut rx) = spsc::bounded_async::<u8>(1);
  assert!(tx.try_send(1).is_ok(), "C03: try_send into an empty channel failed");
  let mut f = Some(tx.send(2));
  assert!(poll_slot(&mut f, 0).is_pending(), "C03: send completed on a full channel");
  assert!(rx.try_recv() == Ok(1), "C02: FIFO");
  assert!(wakes(0) >= 1, "C06: pending send not woken when space appeared");
  match poll_slot(&mut f, 0) {
    Poll::Ready(Ok(())) => {}
    _ => assert!(false, "C06: woken send did not complete"),
  }
  f = None;
  assert!(rx.try_recv() == Ok(2), "C01: value of a completed send not delivered");
  kani::cover!(true, "scenario ran to its end");
}

/// A pending send re-polled with a different waker: freeing space must wake the latest one.
#[kani::proof]
#[kani::unwind(4)]
fn c06_q_spsc_send_repoll_other_waker() {
  let (mut tx, mut rx) = spsc::bounded_async::<u8>(1);
  assert!(tx.try_send(1).is_ok(), "C03: try_send into an empty channel failed");
  let mut f = Some(tx.send(2));
  assert!(poll_slot(&mut f, 0).is_pending(), "C03: send completed on a full channel");
  assert!(poll_slot(&mut f, 1).is_pending(), "C03: send completed on a full channel");
  assert!(rx.try_recv() == Ok(1), "C02: FIFO");
  assert!(wakes(1) >= 1, "C06: pending send not woken through its latest waker when space appeared");
  assert!(poll_slot(&mut f, 1).is_ready(), "C06: woken send did not complete");
  f = None;
  assert!(rx.try_recv() == Ok(2), "C01: value of a completed send not delivered");
  kani::cover!(true, "scenario ran to its end");
}

/// Same for the batch future.
#[kani::proof]
#[kani::unwind(4)]
fn c06_q_spsc_send_batch_repoll_other_waker() {
  let (mut tx, mut rx) = spsc::bounded_async::<u8>(1);
  assert!(tx.try_send(1).is_ok(), "C03: try_send into an empty channel failed");
  let mut f = Some(tx.send_batch(vec![2]));
  assert!(poll_slot(&mut f, 0).is_pending(), "C03: send_batch completed on a full channel");
  assert!(poll_slot(&mut f, 1).is_pending(), "C03: send_batch completed on a full channel");
  assert!(rx.try_recv() == Ok(1), "C02: FIFO");
  assert!(wakes(1) >= 1, "C06: pending send_batch not woken through its latest waker when space appeared");
  assert!(poll_slot(&mut f, 1).is_ready(), "C06: woken send_batch did not complete");
  f = None;
  assert!(rx.try_recv() == Ok(2), "C01: value of a completed send not delivered");
  kani::cover!(true, "scenario ran to its end");
}

/// Cancelling a pending send: the value is not delivered later (no ghost delivery), the channel still works.
#[kani::proof]
#[kani::unwind(4)]
fn c06_q_spsc_cancel_pending_send() {
  let (mut tx, mut rx) = spsc::bounded_async::<u8>(1);
  assert!(tx.try_send(1).is_ok(), "C03: try_send into an empty channel failed");
  let mut f = Some(tx.send(2));
  assert!(poll_slot(&mut f, 0).is_pending(), "C03: send completed on a full channel");
  let after_wake: bool = kani::any();
  if after_wake {
    assert!(rx.try_recv() == Ok(1), "C02: FIFO");
    f = None; // dropped after it was woken, before re-poll
    assert!(rx.try_recv() == Err(TryRecvError::Empty), "C06: cancelled send delivered its value");
  } else {
    f = None;
    assert!(rx.try_recv() == Ok(1), "C02: FIFO");
    assert!(rx.try_recv() == Err(TryRecvError::Empty), "C06: cancelled send delivered its value");
  }
  assert!(tx.try_send(3).is_ok(), "C06: channel unusable after a cancelled send");
  assert!(rx.try_recv() == Ok(3), "C01: value lost after a cancelled send");
  kani::cover!(after_wake, "cancelled after the wake");
}

/// Cancelling a pending recv (before or after it was woken) loses nothing: the value is still there.
#[kani::proof]
#[kani::unwind(4)]
fn c06_q_spsc_cancel_pending_recv() {
  let (mut tx, mut rx) = spsc::bounded_async::<u8>(2);
  let mut f = Some(rx.recv());
  assert!(poll_slot(&mut f, 0).is_pending(), "C06: recv ready on an empty channel");
  let after_wake: bool = kani::any();
  if after_wake {
    assert!(tx.try_send(7).is_ok(), "C03: try_send failed");
    f = None;
  } else {
    f = None;
    assert!(tx.try_send(7).is_ok(), "C03: try_send failed");
  }
  assert!(rx.try_recv() == Ok(7), "C06: cancelling a recv future lost a value");
  // a later future registers afresh and is woken
  let mut g = Some(rx.recv());
  assert!(poll_slot(&mut g, 1).is_pending(), "C06: recv ready on an empty channel");
  assert!(tx.try_send(8).is_ok(), "C03: try_send failed");
  assert!(wakes(1) >= 1, "C06: recv future created after a cancellation was not woken");
  std::mem::forget(g);
  kani::cover!(true, "scenario ran to its end");
}

/// Stream::poll_next mixed with try_recv / a cancelled recv future: a Pending poll_next is always armed.
#[kani::proof]
#[kani::unwind(4)]
fn c06_q_spsc_stream_rearms() {
  let (mut tx, mut rx) = spsc::bounded_async::<u8>(2);
  assert!(poll_next(&mut rx, 0).is_pending(), "C06: poll_next ready on an empty channel");
  assert!(tx.try_send(1).is_ok(), "C03: try_send failed");
  assert!(wakes(0) == 1, "C06: pending stream poll not woken by a send");
  let via_future: bool = kani::any();
  if via_future {
    // the task takes the item through a recv future, polls another one once and cancels it
    let mut f = Some(rx.recv());
    match poll_slot(&mut f, 1) {
      Poll::Ready(Ok(v)) => assert!(v == 1, "C02: FIFO"),
      _ => assert!(false, "C06: recv not ready although a value is buffered"),
    }
    f = None;
    let mut g = Some(rx.recv());
    assert!(poll_slot(&mut g, 1).is_pending(), "C06: recv ready on an empty channel");
    g = None;
  } else {
    assert!(rx.try_recv() == Ok(1), "C02: FIFO");
  }
  let w0 = wakes(0);
  assert!(poll_next(&mut rx, 0).is_pending(), "C06: poll_next ready on an empty channel");
  assert!(tx.try_send(2).is_ok(), "C03: try_send failed");
  assert!(wakes(0) > w0, "C06: second pending stream poll not woken (stale registration)");
  match poll_next(&mut rx, 0) {
    Poll::Ready(Some(v)) => assert!(v == 2, "C02: FIFO"),
    _ => assert!(false, "C06: woken stream poll did not yield the value"),
  }
  drop(tx);
  match poll_next(&mut rx, 0) {
    Poll::Ready(None) => {}
    _ => assert!(false, "C04: stream did not end after the sender went away"),
  }
  kani::cover!(via_future, "item taken through a recv future");
}

// ---------------------------------------------------------------- async forms of C01 / C03 / C04 / C09

/// C01/C02/C03 (async send_batch): `pre` values already buffered (cap 2), a batch of two is sent through
/// the future; the receiver drains; every value arrives exactly once, in order, the future completes with
/// Ok(2) only after everything was admitted, and it is woken whenever it was Pending and space appeared.
#[kani::proof]
#[kani::unwind(5)]
fn c01_x_spsc_async_send_batch() {
  with_pick(2, |pre| {
    let (mut tx, mut rx) = spsc::bounded_async::<u8>(2);
    let mut i = 0u8;
    while (i as u32) < pre {
      assert!(tx.try_send(i).is_ok(), "C03: prefill failed");
      i += 1;
    }
    let mut f = Some(tx.send_batch(vec![10, 11]));
    let mut done = false;
    let mut expect: u8 = 0; // next expected value index in the sequence 0..pre, 10, 11
    let mut rounds = 0;
    while rounds < 4 {
      if !done {
        let w0 = wakes(0);
        match poll_slot(&mut f, 0) {
          Poll::Ready(Ok(n)) => {
            assert!(n == 2, "C01: send_batch reported a wrong count");
            done = true;
          }
          Poll::Ready(Err(_)) => assert!(false, "C04: send_batch failed although the receiver is alive"),
          Poll::Pending => {
            assert!(pre > 0, "C03: send_batch pending although the whole batch fits");
            assert!(rx.len() == 2, "C03: send_batch pending although there is room");
          }
        }
        let _ = w0;
      }
      let before = wakes(0);
      match rx.try_recv() {
        Ok(v) => {
          let want = if (expect as u32) < pre { expect } else { 10 + (expect - pre as u8) };
          assert!(v == want, "C02: batch / FIFO order violated");
          expect += 1;
          if !done {
            assert!(wakes(0) > before, "C06: pending send_batch not woken when space appeared");
          }
        }
        Err(_) => {}
      }
      rounds += 1;
    }
    assert!(done, "C05: send_batch never completed although the receiver kept draining");
    f = None;
    // whatever is left arrives too
    while let Ok(v) = rx.try_recv() {
      let want = if (expect as u32) < pre { expect } else { 10 + (expect - pre as u8) };
      assert!(v == want, "C02: batch / FIFO order violated");
      expect += 1;
    }
    assert!(expect as u32 == pre + 2, "C01: a value of a completed batch was lost or duplicated");
    kani::cover!(pre == 2, "batch sent into a full channel");
  });
}

/// C01 (async send_batch_mut, cancel safety): the future is polled once and dropped; the caller's Vec
/// keeps exactly the unsent tail, the delivered part is the prefix, nothing is lost or duplicated.
#[kani::proof]
#[kani::unwind(5)]
fn c01_t_spsc_async_send_batch_mut_cancel() {
  with_pick(2, |pre| {
    let (mut tx, mut rx) = spsc::bounded_async::<u8>(2);
    let mut i = 0u8;
    while (i as u32) < pre {
      assert!(tx.try_send(i).is_ok(), "C03: prefill failed");
      i += 1;
    }
    let mut items = vec![10u8, 11];
    let r = {
      let mut f = Some(tx.send_batch_mut(&mut items));
      let r = poll_slot(&mut f, 0);
      f = None; // cancelled (or completed)
      r
    };
    let left = items.len();
    assert!(left <= 2, "C01: in-place batch grew");
    match r {
      Poll::Ready(Ok(n)) => assert!(n == 2 && left == 0, "C01: send_batch_mut Ok but items remain"),
      Poll::Ready(Err(_)) => assert!(false, "C04: send_batch_mut failed although the receiver is alive"),
      Poll::Pending => assert!(left > 0, "C01: send_batch_mut pending with nothing left to send"),
    }
    assert!((2 - left) as u32 == 2 - pre, "C03: in-place batch admitted a wrong number of values");
    if left == 1 {
      assert!(items[0] == 11, "C01: unsent tail is not the input suffix");
    }
    if left == 2 {
      assert!(items[0] == 10 && items[1] == 11, "C01: unsent tail is not the input suffix");
    }
    // delivered = prefill then the sent prefix
    let mut n = 0u32;
    while let Ok(v) = rx.try_recv() {
      let want = if n < pre { n as u8 } else { 10 + (n - pre) as u8 };
      assert!(v == want, "C02: order violated");
      n += 1;
    }
    assert!(n == pre + (2 - left as u32), "C01: delivered count differs from what was reported sent");
    kani::cover!(left == 1, "cancelled with one item unsent");
  });
}

/// C04/C06 (async): a pending send is woken when the receiver goes away and reports Closed.
#[kani::proof]
#[kani::unwind(5)]
fn c04_q_spsc_async_pending_send_rx_gone() {
  let (mut tx, rx) = spsc::bounded_async::<u8>(1);
  assert!(tx.try_send(1).is_ok(), "C03: prefill failed");
  let close: bool = kani::any();
  let mut f = Some(tx.send(2));
  assert!(poll_slot(&mut f, 0).is_pending(), "C03: send completed on a full channel");
  if close { let _ = rx.close(); } else { drop(rx); }
  assert!(wakes(0) >= 1, "C06: pending send not woken when the receiver went away");
  match poll_slot(&mut f, 0) {
    Poll::Ready(Err(_)) => {}
    _ => assert!(false, "C04: send did not report Closed after the receiver went away"),
  }
  kani::cover!(close, "receiver closed");
  kani::cover!(!close, "receiver dropped");
  std::mem::forget(f);
}

/// C04 (async): a pending send is woken by a receive that frees a slot, but the receiver goes away
/// before the woken future is polled again: the send must still report Closed (nobody can receive).
#[kani::proof]
#[kani::unwind(5)]
fn c04_q_spsc_async_woken_send_rx_gone() {
  let (mut tx, mut rx) = spsc::bounded_async::<u8>(1);
  assert!(tx.try_send(1).is_ok(), "C03: prefill failed");
  let close: bool = kani::any();
  let mut f = Some(tx.send(2));
  assert!(poll_slot(&mut f, 0).is_pending(), "C03: send completed on a full channel");
  assert!(rx.try_recv() == Ok(1), "C02: FIFO");
  assert!(wakes(0) >= 1, "C06: pending send not woken when space appeared");
  if close { let _ = rx.close(); } else { drop(rx); }
  match poll_slot(&mut f, 0) {
    Poll::Ready(Err(_)) => {}
    Poll::Ready(Ok(())) => assert!(false, "C04: send completed after the last receiver went away"),
    Poll::Pending => assert!(false, "C06: send still pending after the receiver went away"),
  }
  kani::cover!(close, "receiver closed");
  kani::cover!(!close, "receiver dropped");
  std::mem::forget(f);
}

/// Same for a pending send_batch: Closed hands every unsent value back, in order.
#[kani::proof]
#[kani::unwind(5)]
fn c04_q_spsc_async_pending_send_batch_rx_gone() {
  let (mut tx, rx) = spsc::bounded_async::<u8>(1);
  assert!(tx.try_send(1).is_ok(), "C03: prefill failed");
  let mut f = Some(tx.send_batch(vec![10, 11]));
  assert!(poll_slot(&mut f, 0).is_pending(), "C03: send_batch completed on a full channel");
  drop(rx);
  assert!(wakes(0) >= 1, "C06: pending send_batch not woken when the receiver went away");
  match poll_slot(&mut f, 0) {
    Poll::Ready(Err(e)) => {
      assert!(e.sent == 0 && e.unsent.len() == 2 && e.unsent[0] == 10 && e.unsent[1] == 11, "C01: Closed batch error does not hand the values back in order");
    }
    _ => assert!(false, "C04: send_batch did not report Closed after the receiver went away"),
  }
  std::mem::forget(f);
  kani::cover!(true, "scenario ran to its end");
}

/// C09 (async): values inside cancelled futures and values left in the ring are dropped exactly once.
#[kani::proof]
#[kani::unwind(5)]
fn c09_q_spsc_async_cancel_drops() {
  let (mut tx, mut rx) = spsc::bounded_async::<Tag>(1);
  assert!(tx.try_send(Tag(0)).is_ok(), "C03: prefill failed");
  let sc: u8 = kani::any();
  kani::assume(sc < 3);
  if sc == 0 {
    // pending single send cancelled
    let mut f = Some(tx.send(Tag(1)));
    assert!(poll_slot(&mut f, 0).is_pending(), "C03: send completed on a full channel");
    f = None;
    assert!(drops(1) == 1, "C09: value of a cancelled send not dropped exactly once");
  } else if sc == 1 {
    // pending batch: one value admitted after a receive, the other still inside the future when cancelled
    let mut f = Some(tx.send_batch(vec![Tag(1), Tag(2)]));
    assert!(poll_slot(&mut f, 0).is_pending(), "C03: send_batch completed on a full channel");
    let v = rx.try_recv();
    assert!(v.is_ok(), "C01: buffered value not delivered");
    drop(v);
    assert!(drops(0) == 1, "C09: received value not dropped exactly once");
    assert!(poll_slot(&mut f, 0).is_pending(), "C03: send_batch completed although one value does not fit");
    f = None;
    assert!(drops(2) == 1, "C09: unsent value of a cancelled batch not dropped exactly once");
    assert!(drops(1) == 0, "C09: admitted value dropped while still buffered");
  } else {
    // pending recv on the other side cancelled: nothing consumed
    let v = rx.try_recv();
    drop(v);
    let mut g = Some(rx.recv());
    assert!(poll_slot(&mut g, 1).is_pending(), "C06: recv ready on an empty channel");
    g = None;
    assert!(tx.try_send(Tag(1)).is_ok(), "C03: try_send failed");
  }
  let tx_first: bool = kani::any();
  if tx_first {
    drop(tx);
    drop(rx);
  } else {
    drop(rx);
    drop(tx);
  }
  assert!(drops(0) == 1, "C09: value 0 not dropped exactly once");
  assert!(drops(1) == 1, "C09: value 1 not dropped exactly once");
  kani::cover!(sc == 1, "batch cancelled half way");
}

/// C06 (symbolic poll-level program on the receive side): N steps over {poll the recv future with waker
/// 0 or 1 (creating it if needed), cancel it, try_send, drop the sender}. After every step: a Pending
/// recv future whose operation became possible (value buffered or sender gone) has been woken through
/// the waker of its latest poll; values arrive exactly once, in order.
macro_rules! spsc_async_recv_program {
  ($name:ident, $n:expr, $unw:expr) => {
    #[kani::proof]
    #[kani::unwind($unw)]
    fn $name() {
      let (tx0, mut rx) = spsc::bounded_async::<u8>(2);
      let mut tx = Some(tx0);
      let rxp: *mut ARx<u8> = &mut rx; // the future borrows the receiver for its whole life; at most one exists at a time
      let mut f = None;
      let mut pending = false;
      let mut last_waker = 0usize;
      let mut base = 0u32;
      let mut sent: u8 = 0;
      let mut got: u8 = 0;
      let mut saw_disc = false;
      let mut step = 0;
      while step < $n {
        let op: u8 = kani::any();
        kani::assume(op < 5);
        if op <= 1 {
          let w = op as usize;
          if f.is_none() {
            f = Some(unsafe { (*rxp).recv() });
          }
          base = wakes(w);
          last_waker = w;
          match poll_slot(&mut f, w) {
            Poll::Ready(Ok(v)) => {
              assert!(v == got && got < sent, "C02: recv future returned a wrong value");
              got += 1;
              f = None;
              pending = false;
            }
            Poll::Ready(Err(_)) => {
              assert!(tx.is_none() && got == sent, "C04: Disconnected while a sender is alive or values are buffered");
              saw_disc = true;
              f = None;
              pending = false;
            }
            Poll::Pending => {
              assert!(got == sent && tx.is_some(), "C06: recv Pending although a value is buffered or the sender is gone");
              pending = true;
            }
          }
        } else if op == 2 {
          f = None;
          pending = false;
        } else if op == 3 {
          if let Some(t) = tx.as_mut() {
            if sent - got < 2 {
              assert!(t.try_send(sent).is_ok(), "C03: try_send failed although there is room");
              sent += 1;
            }
          }
        } else {
          tx = None;
        }
        if pending && (got < sent || tx.is_none()) {
          assert!(wakes(last_waker) > base, "C06: pending recv not woken through its latest waker although it can complete");
        }
        step += 1;
      }
      kani::cover!(saw_disc, "Disconnected observed through the future");
      kani::cover!(got >= 2, "two values received through futures");
      std::mem::forget(f);
    }
  };
}
spsc_async_recv_program!(c06_q_spsc_async_recv_program_n4, 4, 5);
spsc_async_recv_program!(c06_t_spsc_async_recv_program_n5, 5, 6);

// ---------------------------------------------------------------- nested preemption inside a poll
use fibre::__verif as sched;
use std::sync::atomic::{AtomicPtr, Ordering::Relaxed};
static ARXP: AtomicPtr<ARx<u8>> = AtomicPtr::new(std::ptr::null_mut());
static GOT: std::sync::atomic::AtomicU8 = std::sync::atomic::AtomicU8::new(255);
fn a_async_try_recv(_a: sched::ActorId) {
  let rx = unsafe { &mut *ARXP.load(Relaxed) };
  if let Ok(v) = rx.try_recv() {
    GOT.store(v, Relaxed);
  }
}

/// C02 (in-place batch future split across the consumer): ring full, a three-item in-place batch is
/// polled while the consumer frees one slot at any synchronisation point of the poll; whatever the
/// poll admits, the values arrive in send order and the caller's Vec keeps the unsent tail in order.
#[kani::proof]
#[kani::unwind(5)]
fn c02_x_spsc_async_send_batch_mut_vs_recv() {
  // one concrete schedule per path (the consumer's try_recv starts at scheduling point `at` of the
  // poll): drain ranges and allocation sizes inside the future stay concrete
  with_pick(16, |at| {
    let (mut tx, mut rx) = spsc::bounded_async::<u8>(2);
    assert!(tx.try_send(0).is_ok() && tx.try_send(1).is_ok(), "C03: prefill failed");
    ARXP.store(&mut rx as *mut _, Relaxed);
    let mut items = vec![10u8, 11, 12];
    {
      let mut f = Some(tx.send_batch_mut(&mut items));
      sched::set_preempt_at(at);
      sched::install(a_async_try_recv, 1, 1);
      let _ = poll_slot(&mut f, 0);
      assert!(sched::points() <= 40, "VERIF-BOUND: more scheduling points than expected");
      sched::run_pending();
      sched::uninstall();
      f = None;
    }
    assert!(GOT.load(Relaxed) == 0, "C02: consumer did not receive the oldest value");
    let mut expect_next_batch: u8 = 10;
    let mut first = true;
    let mut n = 0;
    while n < 4 {
      match rx.try_recv() {
        Ok(v) => {
          if first {
            assert!(v == 1, "C02: FIFO order violated");
            first = false;
          } else {
            assert!(v == expect_next_batch, "C02: in-place batch delivered out of send order");
            expect_next_batch += 1;
          }
        }
        Err(_) => {}
      }
      n += 1;
    }
    let sent = (expect_next_batch - 10) as usize;
    assert!(items.len() + sent == 3, "C01: in-place batch lost or duplicated a value");
    let mut j = 0;
    while j < items.len() && j < 3 {
      assert!(items[j] == 10 + (sent + j) as u8, "C01: unsent tail is not the input suffix in order");
      j += 1;
    }
    kani::cover!(sent == 1, "one item admitted after the consumer freed a slot");
    kani::cover!(sent == 0, "nothing admitted: the consumer ran after the poll's last look");
  });
}
