//! oneshot channel (parking_lot replaced by the model crate: sequential programs only).
use crate::common::*;
use fibre::error::*;
use fibre::oneshot;
use std::future::Future;
use std::pin::Pin;
use std::task::{Context, Poll};

fn poll_slot<F: Future>(slot: &mut Option<F>, w: usize) -> Poll<F::Output> {
  let f = unsafe { Pin::new_unchecked(slot.as_mut().unwrap()) };
  let wk = waker(w);
  let mut cx = Context::from_waker(&wk);
  f.poll(&mut cx)
}

/// C03/C01 (oneshot): only the first send ever succeeds; a later send hands its value back as Sent;
/// the receiver gets exactly the first value, once.
#[kani::proof]
#[kani::unwind(4)]
fn c03_q_oneshot_first_send_wins() {
  let (tx, rx) = oneshot::oneshot::<u8>();
  let tx2 = tx.clone();
  let first_is_clone: bool = kani::any();
  let (a, b) = if first_is_clone { (tx2, tx) } else { (tx, tx2) };
  assert!(a.send(1).is_ok(), "C03: first oneshot send failed");
  match b.send(2) {
    Err(TrySendError::Sent(v)) => assert!(v == 2, "C01: Sent did not hand the value back"),
    _ => assert!(false, "C03: second oneshot send did not report Sent"),
  }
  assert!(rx.try_recv() == Ok(1), "C01: oneshot receiver did not get the first value");
  assert!(rx.try_recv().is_err(), "C01: oneshot value delivered twice");
}

/// C04 (oneshot): all senders gone without a send => Disconnected; receiver gone => send is Closed(v).
#[kani::proof]
#[kani::unwind(4)]
fn c04_q_oneshot_disconnect() {
  let (tx, rx) = oneshot::oneshot::<u8>();
  let which: u8 = kani::any();
  kani::assume(which < 3);
  if which == 0 {
    let tx2 = tx.clone();
    drop(tx);
    assert!(rx.try_recv() == Err(TryRecvError::Empty), "C04: Disconnected while a sender clone is alive");
    drop(tx2);
    assert!(rx.try_recv() == Err(TryRecvError::Disconnected), "C04: no Disconnected after the last sender dropped");
  } else if which == 1 {
    drop(rx);
    match tx.send(5) {
      Err(TrySendError::Closed(v)) => assert!(v == 5, "C04: Closed did not hand the value back"),
      _ => assert!(false, "C04: send succeeded after the receiver was dropped"),
    }
  } else {
    assert!(rx.close().is_ok(), "C04: first close() failed");
    assert!(rx.close().is_err(), "C04: second close() did not report CloseError");
    match tx.send(5) {
      Err(TrySendError::Closed(v)) => assert!(v == 5, "C04: Closed did not hand the value back"),
      _ => assert!(false, "C04: send succeeded after the receiver closed"),
    }
  }
  kani::cover!(which == 0, "sender clones dropped");
  kani::cover!(which == 2, "receiver closed");
}

/// C06 (oneshot): a pending recv future is woken by the send / by the last sender going away.
#[kani::proof]
#[kani::unwind(4)]
fn c06_q_oneshot_recv_woken() {
  let (tx, rx) = oneshot::oneshot::<u8>();
  let mut f = Some(rx.recv());
  assert!(poll_slot(&mut f, 0).is_pending(), "C06: oneshot recv ready before any send");
  let send: bool = kani::any();
  if send {
    assert!(tx.send(9).is_ok(), "C03: first oneshot send failed");
  } else {
    drop(tx);
  }
  assert!(wakes(0) >= 1, "C06: pending oneshot recv not woken");
  match poll_slot(&mut f, 0) {
    Poll::Ready(Ok(v)) => assert!(send && v == 9, "C01: oneshot recv returned a value never sent"),
    Poll::Ready(Err(_)) => assert!(!send, "C04: Disconnected although a value was sent"),
    Poll::Pending => assert!(false, "C06: woken oneshot recv did not complete"),
  }
  kani::cover!(send, "woken by a send");
  kani::cover!(!send, "woken by disconnect");
  std::mem::forget(f);
}

/// C09 (oneshot): the value is dropped exactly once whether it is received, left in the slot, or
/// handed back; including a cancelled recv future.
#[kani::proof]
#[kani::unwind(4)]
fn c09_q_oneshot_drops() {
  let (tx, rx) = oneshot::oneshot::<Tag>();
  let tx2 = tx.clone();
  let sc: u8 = kani::any();
  kani::assume(sc < 4);
  assert!(tx.send(Tag(0)).is_ok(), "C03: first oneshot send failed");
  let r2 = tx2.send(Tag(1));
  assert!(r2.is_err(), "C03: second oneshot send did not fail");
  drop(r2);
  assert!(drops(1) == 1, "C09: value handed back inside an error not dropped exactly once");
  if sc == 0 {
    let v = rx.try_recv();
    assert!(v.is_ok(), "C01: oneshot value not delivered");
    drop(v);
    drop(rx);
  } else if sc == 1 {
    drop(rx); // value left in the slot
  } else if sc == 2 {
    let mut f = Some(rx.recv());
    f = None; // cancelled before polling
    drop(rx);
  } else {
    let _ = rx.close();
    drop(rx);
  }
  assert!(drops(0) == 1, "C09: oneshot value not dropped exactly once");
  kani::cover!(sc == 1, "value left in the slot at teardown");
}
