//! oneshot channel (parking_lot replaced by the model crate: sequential programs only).
use crate::common::*;
use fibre::error::*;
use fibre::oneshot;
use std::future::Future;
use std::pin::Pin;
use std::task::{Context, Poll};

fn poll_slot<F: Future>(slot: &mut Option<F>, w: usize) -> Poll<F::Output> {
  let f = unsafe { Pin::new_unchecked(slot.as_mut().unwrap()) };
  let wk = waker(w);
  let mut cx = Context::from_waker(&wk);
  f.poll(&mut cx)
}

/// C03/C01 (oneshot): only the first send ever succeeds; a later send hands its value back as Sent;
/// the receiver gets exactly the first value, once.
#[kani::proof]
#[kani::unwind(4)]
fn c03_q_oneshot_first_send_wins() {
  let (tx, rx) = oneshot::oneshot::<u8>();
  let tx2 = tx.clone();
  let first_is_clone: bool = kani::any();
  let (a, b) = if first_is_clone { (tx2, tx) } else { (tx, tx2) };
  assert!(a.send(1).is_ok(), "C03: first oneshot send failed");
  match b.send(2) {
    Err(TrySendError::Sent(v)) => assert!(v == 2, "C01: Sent did not hand the value back"),
    _ => assert!(false, "C03: second oneshot send did not report Sent"),
  }
  assert!(rx.try_recv() == Ok(1), "C01: oneshot receiver did not get the first value");
  assert!(rx.try_recv().is_err(), "C01: oneshot value delivered twice");
  kani::cover!(true, "scenario ran to its end");
}

/// C04 (oneshot): all senders gone without a send => Disconnected; receiver gone => send is Closed(v).
#[kani::proof]
#[kani::unwind(4)]
fn c04_q_oneshot_disconnect() {
  let (tx, rx) = oneshot::oneshot::<u8>();
  let which: u8 = kani::any();
  kani::assume(which < 3);
  if which == 0 {
    let tx2 = tx.clone();
    drop(tx);
    assert!(rx.try_recv() == Err(TryRecvError::Empty), "C04: Disconnected while a sender clone is alive");
    drop(tx2);
    assert!(rx.try_recv() == Err(TryRecvError::Disconnected), "C04: no Disconnected after the last sender dropped");
  } else if which == 1 {
    drop(rx);
    match tx.send(5) {
      Err(TrySendError::Closed(v)) => assert!(v == 5, "C04: Closed did not hand the value back"),
      _ => assert!(false, "C04: send succeeded after the receiver was dropped"),
    }
  } else {
    assert!(rx.close().is_ok(), "C04: first close() failed");
    assert!(rx.close().is_err(), "C04: second close() did not report CloseError");
    match tx.send(5) {
      Err(TrySendError::Closed(v)) => assert!(v == 5, "C04: Closed did not hand the value back"),
      _ => assert!(false, "C04: send succeeded after the receiver closed"),
    }
  }
  kani::cover!(which == 0, "sender clones dropped");
  kani::cover!(which == 2, "receiver closed");
}

/// C06 (oneshot): a pending recv future is woken by the send / by the last sender going away.
#[kani::proof]
#[kani::unwind(4)]
fn c06_q_oneshot_recv_woken() {
  let (tx, rx) = oneshot::oneshot::<u8>();
  let mut f = Some(rx.recv());
  assert!(poll_slot(&mut f, 0).is_pending(), "C06: oneshot recv ready before any send");
  let send: bool = kani::any();
  if send {
    assert!(tx.send(9).is_ok(), "C03: first oneshot send failed");
  } else {
    drop(tx);
  }
  assert!(wakes(0) >= 1, "C06: pending oneshot recv not woken");
  match poll_slot(&mut f, 0) {
    Poll::Ready(Ok(v)) => assert!(send && v == 9, "C01: oneshot recv returned a value never sent"),
    Poll::Ready(Err(_)) => assert!(!send, "C04: Disconnected although a value was sent"),
    Poll::Pending => assert!(false, "C06: woken oneshot recv did not complete"),
  }
  kani::cover!(send, "woken by a send");
  kani::cover!(!send, "woken by disconnect");
  std::mem::forget(f);
}

/// C09 (oneshot): the value is dropped exactly once whether it is received, left in the slot, or
/// handed back; including a cancelled recv future.
#[kani::proof]
#[kani::unwind(4)]
fn c09_q_oneshot_drops() {
  let (tx, rx) = oneshot::oneshot::<Tag>();
  let tx2 = tx.clone();
  let sc: u8 = kani::any();
  kani::assume(sc < 4);
  assert!(tx.send(Tag(0)).is_ok(), "C03: first oneshot send failed");
  let r2 = tx2.send(Tag(1));
  assert!(r2.is_err(), "C03: second oneshot send did not fail");
  drop(r2);
  assert!(drops(1) == 1, "C09: value handed back inside an error not dropped exactly once");
  if sc == 0 {
    let v = rx.try_recv();
    assert!(v.is_ok(), "C01: oneshot value not delivered");
    drop(v);
    drop(rx);
  } else if sc == 1 {
    drop(rx); // value left in the slot
  } else if sc == 2 {
    let mut f = Some(rx.recv());
    f = None; // cancelled before polling
    drop(rx);
  } else {
    let _ = rx.close();
    drop(rx);
  }
  assert!(drops(0) == 1, "C09: oneshot value not dropped exactly once");
  kani::cover!(sc == 1, "value left in the slot at teardown");
}

// ---------------------------------------------------------------- races (oneshot routed through the
// verification primitives by hook H1o: every atomic / lock operation is a scheduling point)
use fibre::__verif as sched;
use std::sync::atomic::{AtomicPtr, Ordering::Relaxed};

static RXT: AtomicPtr<Option<oneshot::Receiver<Tag>>> = AtomicPtr::new(std::ptr::null_mut());
static TXT: AtomicPtr<Option<oneshot::Sender<Tag>>> = AtomicPtr::new(std::ptr::null_mut());
fn a_drop_rx(_a: sched::ActorId) {
  let r = unsafe { &mut *RXT.load(Relaxed) };
  *r = None;
}
fn a_close_rx(_a: sched::ActorId) {
  let r = unsafe { &mut *RXT.load(Relaxed) };
  let _ = r.as_ref().unwrap().close();
}
fn a_send_clone(_a: sched::ActorId) {
  let t = unsafe { &mut *TXT.load(Relaxed) };
  let r = t.take().unwrap().send(Tag(1));
  drop(r);
}

/// C09/C04 (oneshot race): the receiver is dropped / closed at any synchronisation point of send():
/// the value is dropped exactly once whether the send reports Ok or hands it back.
#[kani::proof]
#[kani::unwind(4)]
fn c09_q_oneshot_send_vs_receiver_drop() {
  let (tx, rx) = oneshot::oneshot::<Tag>();
  let mut rxs = Some(rx);
  RXT.store(&mut rxs as *mut _, Relaxed);
  let close: bool = kani::any();
  sched::install(if close { a_close_rx } else { a_drop_rx }, 1, 1);
  let r = tx.send(Tag(0));
  sched::run_pending();
  sched::uninstall();
  let ok = r.is_ok();
  drop(r); // an Err hands the value back: dropped here
  if !ok {
    assert!(drops(0) == 1, "C09: value handed back by a failed oneshot send not dropped exactly once");
  }
  rxs = None;
  assert!(drops(0) == 1, "C09: oneshot value not dropped exactly once (receiver went away during send)");
  kani::cover!(ok, "send reported success although the receiver went away");
  kani::cover!(!ok, "send handed the value back");
}

/// C03/C01 (oneshot race): two senders racing: exactly one send succeeds, the loser gets its own value
/// back, the receiver gets the winner's value.
#[kani::proof]
#[kani::unwind(4)]
fn c03_q_oneshot_two_senders_race() {
  let (tx, rx) = oneshot::oneshot::<Tag>();
  let mut tx2 = Some(tx.clone());
  TXT.store(&mut tx2 as *mut _, Relaxed);
  sched::install(a_send_clone, 1, 1);
  let r = tx.send(Tag(0));
  sched::run_pending();
  sched::uninstall();
  let top_won = r.is_ok();
  match r {
    Ok(()) => {}
    Err(TrySendError::Sent(v)) => assert!(v.0 == 0, "C01: Sent did not hand the sender's own value back"),
    Err(_) => assert!(false, "C04: spurious Closed"),
  }
  let got = rx.try_recv();
  match got {
    Ok(v) => assert!(v.0 == if top_won { 0 } else { 1 }, "C03: the receiver did not get the winning sender's value"),
    Err(_) => assert!(false, "C01: a successful oneshot send was not delivered"),
  }
  assert!(drops(0) == 1 && drops(1) == 1, "C09: a racing sender's value was not dropped exactly once");
  kani::cover!(top_won, "first sender won");
  kani::cover!(!top_won, "second sender won");
}

static TX8: AtomicPtr<Option<oneshot::Sender<u8>>> = AtomicPtr::new(std::ptr::null_mut());
fn a_send5_u8(_a: sched::ActorId) {
  let t = unsafe { &mut *TX8.load(Relaxed) };
  let r = t.take().unwrap().send(5);
  assert!(r.is_ok(), "C03: the only oneshot send failed");
}
fn a_drop_tx_u8(_a: sched::ActorId) {
  let t = unsafe { &mut *TX8.load(Relaxed) };
  *t = None;
}

/// C04 (oneshot race): one sender handle is dropped while the other clone sends / is dropped at any
/// synchronisation point: a sent value is delivered (never Disconnected with the value lost), and with
/// no send the receiver ends up Disconnected exactly when every clone is gone.
#[kani::proof]
#[kani::unwind(4)]
fn c04_q_oneshot_sender_clones_race() {
  let (tx, rx) = oneshot::oneshot::<u8>();
  let mut tx2 = Some(tx.clone());
  TX8.store(&mut tx2 as *mut _, Relaxed);
  let other_sends: bool = kani::any();
  sched::install(if other_sends { a_send5_u8 } else { a_drop_tx_u8 }, 1, 1);
  drop(tx);
  sched::run_pending();
  sched::uninstall();
  let r = rx.try_recv();
  if other_sends {
    assert!(r == Ok(5), "C04: a value sent by a live sender clone was not delivered");
  } else {
    assert!(r == Err(TryRecvError::Disconnected), "C04: no Disconnected after every sender clone was dropped");
  }
  kani::cover!(other_sends, "the other clone sent");
  kani::cover!(!other_sends, "both clones dropped");
}

/// C04 (oneshot, symbolic program over the sender handles): N steps over {clone slot i into a free slot,
/// close slot i, drop slot i, send through slot i}; at every step the receiver sees Empty while an open
/// (neither closed nor dropped) sender exists and nothing was sent; at the end every handle is dropped
/// and the receiver gets the sent value, or Disconnected if none was sent.
#[kani::proof]
#[kani::unwind(6)]
fn c04_q_oneshot_sender_handles_program() {
  let (tx, rx) = oneshot::oneshot::<u8>();
  let mut h: [Option<oneshot::Sender<u8>>; 3] = [Some(tx), None, None];
  let mut closed = [false; 3];
  let mut sent = false;
  let mut dead = false; // every sender handle was closed/dropped before any send: disconnected for good
  let mut step = 0;
  while step < 4 {
    let op: u8 = kani::any();
    let i: usize = kani::any();
    kani::assume(op < 4 && i < 3);
    if op == 0 {
      if h[i].is_some() {
        let free = if h[0].is_none() { 0 } else if h[1].is_none() { 1 } else if h[2].is_none() { 2 } else { 3 };
        if free < 3 {
          let c = h[i].as_ref().unwrap().clone();
          h[free] = Some(c);
          closed[free] = false; // a clone is a fresh, open handle
        }
      }
    } else if op == 1 {
      if let Some(s) = h[i].as_ref() {
        let r = s.close();
        assert!(r.is_ok() == !closed[i], "C04: oneshot sender close(): Ok exactly on the first call");
        closed[i] = true;
      }
    } else if op == 2 {
      h[i] = None;
      closed[i] = false;
    } else {
      if let Some(s) = h[i].take() {
        let was_closed = closed[i];
        closed[i] = false;
        match s.send(7) {
          Ok(()) => {
            assert!(!sent, "C03: a second oneshot send succeeded");
            assert!(!was_closed, "C04: a send through a closed oneshot handle succeeded");
            assert!(!dead, "C04: a send succeeded after the receiver could observe Disconnected");
            sent = true;
          }
          // (after every sender was closed/dropped the implementation answers a resurrected clone's send
          // with Sent rather than Closed; the properties do not fix the variant, only that the send fails
          // and hands the value back)
          Err(TrySendError::Sent(v)) => assert!(v == 7 && (sent || dead), "C03: Sent reported although nothing was sent and the channel is live"),
          Err(TrySendError::Closed(v)) => {
            assert!(v == 7, "C01: Closed did not hand the value back");
            assert!(was_closed || dead, "C04: oneshot send reported Closed although the handle is open and the receiver is alive");
          }
          Err(_) => assert!(false, "C03: unexpected oneshot send error"),
        }
      }
    }
    let open = (h[0].is_some() && !closed[0]) || (h[1].is_some() && !closed[1]) || (h[2].is_some() && !closed[2]);
    if !sent && !open {
      dead = true;
    }
    if !sent && !dead {
      assert!(rx.try_recv() == Err(TryRecvError::Empty), "C04: oneshot receiver disconnected while an open sender handle exists");
    }
    if dead {
      assert!(rx.try_recv() == Err(TryRecvError::Disconnected), "C04: no Disconnected although every sender handle was closed or dropped");
    }
    step += 1;
  }
  h[0] = None;
  h[1] = None;
  h[2] = None;
  if sent {
    assert!(rx.try_recv() == Ok(7), "C01: the sent oneshot value was not delivered");
  } else {
    assert!(rx.try_recv() == Err(TryRecvError::Disconnected), "C04: no Disconnected after every sender handle was dropped");
  }
  kani::cover!(sent, "a value was sent");
  kani::cover!(!sent, "nothing was sent");
  kani::cover!(dead && (h[0].is_some() || true), "disconnected before any send");
}
