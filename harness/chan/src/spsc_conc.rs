use crate::common::*;
use fibre::__verif as sched;
use fibre::error::*;
use fibre::spsc;
use std::sync::atomic::{AtomicPtr, Ordering::Relaxed};

static TXP: AtomicPtr<spsc::BoundedSyncSender<u8>> = AtomicPtr::new(std::ptr::null_mut());

fn actor_send(_i: sched::ActorId) {
  let tx = unsafe { &*TXP.load(Relaxed) };
  assert!(tx.try_send(7).is_ok(), "C03: try_send into empty channel");
}

/// C05 (spsc): blocking recv on top, sender actor injected at any sync point.
#[kani::proof]
#[kani::unwind(4)]
fn c05_q_spsc_recv_vs_send() {
  let (tx, rx) = spsc::bounded_sync::<u8>(1);
  let mut tx = std::mem::ManuallyDrop::new(tx);
  TXP.store(&mut *tx as *mut _, Relaxed);
  sched::install(actor_send, 1, 1);
  sched::set_stuck_is_bug(true);
  let r = rx.recv();
  assert!(r == Ok(7), "C05: recv returns the sent value");
  kani::cover!(sched::started_at(1) > 2, "sender ran after recv's first checks");
  std::mem::forget(rx);
}

/// playback probe: fails only when the actor is scheduled late
#[kani::proof]
#[kani::unwind(4)]
fn zz_probe_playback() {
  let (tx, rx) = spsc::bounded_sync::<u8>(1);
  let mut tx = std::mem::ManuallyDrop::new(tx);
  TXP.store(&mut *tx as *mut _, Relaxed);
  sched::install(actor_send, 1, 1);
  let r = rx.try_recv();
  assert!(!(r.is_err() && sched::pending() == 0), "PROBE: actor ran but try_recv saw Empty");
  std::mem::forget(rx);
}
