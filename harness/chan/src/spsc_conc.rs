//! C05 (and the C01/C04 race clauses) on the sync SPSC channel: a blocking operation on top, the
//! enabling operation(s) of the other side injected by the solver at any synchronisation point
//! (nested-preemption class, SC memory). `stuck_is_bug`: the top operation must return.
use crate::common::*;
use fibre::__verif as sched;
use fibre::error::*;
use fibre::spsc::{self, BoundedSyncReceiver as Rx, BoundedSyncSender as Tx};
use std::sync::atomic::{AtomicPtr, AtomicU8, Ordering::Relaxed};
use std::time::Duration;

static TXP: AtomicPtr<Option<Tx<u8>>> = AtomicPtr::new(std::ptr::null_mut());
static RXP: AtomicPtr<Option<Rx<u8>>> = AtomicPtr::new(std::ptr::null_mut());
static ACT_OK: AtomicU8 = AtomicU8::new(0);

fn txh() -> &'static mut Option<Tx<u8>> {
  unsafe { &mut *TXP.load(Relaxed) }
}
fn rxh() -> &'static mut Option<Rx<u8>> {
  unsafe { &mut *RXP.load(Relaxed) }
}
fn a_send7(_a: sched::ActorId) {
  let r = txh().as_ref().unwrap().try_send(7);
  assert!(r.is_ok(), "C03: try_send into an empty channel failed");
  ACT_OK.store(1, Relaxed);
}
fn a_send7_then_drop(_a: sched::ActorId) {
  let r = txh().as_ref().unwrap().try_send(7);
  assert!(r.is_ok(), "C03: try_send into an empty channel failed");
  *txh() = None;
}
fn a_send7_then_close(_a: sched::ActorId) {
  let r = txh().as_ref().unwrap().try_send(7);
  assert!(r.is_ok(), "C03: try_send into an empty channel failed");
  let _ = txh().as_ref().unwrap().close();
}
fn a_drop_tx(_a: sched::ActorId) {
  *txh() = None;
}
fn a_close_tx(_a: sched::ActorId) {
  let _ = txh().as_ref().unwrap().close();
}
fn a_drop_rx(_a: sched::ActorId) {
  *rxh() = None;
}
fn a_close_rx(_a: sched::ActorId) {
  let _ = rxh().as_ref().unwrap().close();
}
fn a_recv(_a: sched::ActorId) {
  let r = rxh().as_ref().unwrap().try_recv();
  assert!(r.is_ok(), "C01: try_recv on a non-empty channel failed");
  ACT_OK.store(ACT_OK.load(Relaxed) + 1, Relaxed);
}

macro_rules! setup {
  ($cap:expr, $prefill:expr, $tx:ident, $rx:ident) => {
    let (t, r) = spsc::bounded_sync::<u8>($cap);
    let mut i = 0u8;
    while i < $prefill {
      assert!(t.try_send(i).is_ok(), "C03: prefill try_send failed");
      i += 1;
    }
    let mut $tx = Some(t);
    let mut $rx = Some(r);
    TXP.store(&mut $tx as *mut _, Relaxed);
    RXP.store(&mut $rx as *mut _, Relaxed);
  };
}

/// recv() blocked on an empty channel; the sender's try_send lands anywhere.
#[kani::proof]
#[kani::unwind(6)]
fn c05_q_spsc_recv_vs_send() {
  setup!(1, 0, tx, rx);
  sched::install(a_send7, 1, 1);
  sched::set_stuck_is_bug(true);
  sched::allow_spurious_unpark(1);
  let r = rx.as_ref().unwrap().recv();
  assert!(r == Ok(7), "C05: recv did not return the sent value");
  kani::cover!(sched::started_at(1) > 2, "sender ran after recv's first checks");
  std::mem::forget(rx);
  std::mem::forget(tx);
}

/// send() blocked on a full channel; the receiver's try_recv lands anywhere.
#[kani::proof]
#[kani::unwind(5)]
fn c05_q_spsc_send_vs_recv() {
  setup!(1, 1, tx, rx);
  sched::install(a_recv, 1, 1);
  sched::set_stuck_is_bug(true);
  let r = tx.as_ref().unwrap().send(9);
  assert!(r.is_ok(), "C05: blocked send did not complete after a receive");
  sched::uninstall();
  assert!(rx.as_ref().unwrap().try_recv() == Ok(9), "C03: blocked send lost or overwrote a value");
  kani::cover!(sched::started_at(1) > 2, "receiver ran after send's first checks");
  std::mem::forget(rx);
  std::mem::forget(tx);
}

/// recv() blocked on an empty channel; the sender is dropped / closed anywhere: Disconnected.
#[kani::proof]
#[kani::unwind(5)]
fn c05_t_spsc_recv_vs_sender_drop() {
  setup!(1, 0, tx, rx);
  sched::install(a_drop_tx, 1, 1);
  sched::set_stuck_is_bug(true);
  let r = rx.as_ref().unwrap().recv();
  assert!(r == Err(RecvError::Disconnected), "C05: recv did not observe the sender going away");
  kani::cover!(sched::started_at(1) > 2, "sender dropped after recv's first checks");
  std::mem::forget(rx);
  std::mem::forget(tx);
}

/// recv() blocked on an empty channel; the sender is dropped / closed anywhere: Disconnected.
#[kani::proof]
#[kani::unwind(5)]
fn c05_q_spsc_recv_vs_sender_close() {
  setup!(1, 0, tx, rx);
  sched::install(a_close_tx, 1, 1);
  sched::set_stuck_is_bug(true);
  let r = rx.as_ref().unwrap().recv();
  assert!(r == Err(RecvError::Disconnected), "C05: recv did not observe the sender going away");
  kani::cover!(sched::started_at(1) > 2, "sender dropped after recv's first checks");
  std::mem::forget(rx);
  std::mem::forget(tx);
}

/// send() blocked on a full channel; the receiver is dropped / closed anywhere: Closed.
#[kani::proof]
#[kani::unwind(4)]
fn c05_t_spsc_send_vs_receiver_drop() {
  setup!(1, 1, tx, rx);
  sched::install(a_drop_rx, 1, 1);
  sched::set_stuck_is_bug(true);
  let r = tx.as_ref().unwrap().send(9);
  assert!(r == Err(SendError::Closed), "C05: blocked send did not observe the receiver going away");
  kani::cover!(sched::started_at(1) > 2, "receiver dropped after send's first checks");
  std::mem::forget(rx);
  std::mem::forget(tx);
}

/// send() blocked on a full channel; the receiver is dropped / closed anywhere: Closed.
#[kani::proof]
#[kani::unwind(5)]
fn c05_q_spsc_send_vs_receiver_close() {
  setup!(1, 1, tx, rx);
  sched::install(a_close_rx, 1, 1);
  sched::set_stuck_is_bug(true);
  let r = tx.as_ref().unwrap().send(9);
  assert!(r == Err(SendError::Closed), "C05: blocked send did not observe the receiver going away");
  kani::cover!(sched::started_at(1) > 2, "receiver dropped after send's first checks");
  std::mem::forget(rx);
  std::mem::forget(tx);
}

/// C04 straggler window: the last sender sends and is dropped while recv() is in flight: the value
/// must be delivered, not Disconnected.
#[kani::proof]
#[kani::unwind(5)]
fn c04_x_spsc_recv_vs_send_then_drop() {
  setup!(1, 0, tx, rx);
  sched::install(a_send7_then_drop, 1, 1);
  sched::set_stuck_is_bug(true);
  let r = rx.as_ref().unwrap().recv();
  assert!(r == Ok(7), "C04: value sent before the last sender dropped was not delivered");
  assert!(rx.as_ref().unwrap().try_recv() == Err(TryRecvError::Disconnected), "C04: no Disconnected after drain");
  kani::cover!(sched::started_at(1) > 2, "sender ran after recv's first checks");
  std::mem::forget(rx);
  std::mem::forget(tx);
}

/// try_recv flavour of the same window (non-blocking).
#[kani::proof]
#[kani::unwind(5)]
fn c04_q_spsc_try_recv_vs_send_then_drop() {
  setup!(1, 0, tx, rx);
  sched::install(a_send7_then_drop, 1, 1);
  let r = rx.as_ref().unwrap().try_recv();
  sched::run_pending();
  sched::uninstall();
  match r {
    Ok(v) => assert!(v == 7, "C01: received a value never sent"),
    Err(TryRecvError::Empty) => {
      assert!(rx.as_ref().unwrap().try_recv() == Ok(7), "C04: sent value lost after the sender dropped");
    }
    Err(TryRecvError::Disconnected) => {
      assert!(false, "C04: Disconnected although a sent value is still buffered");
    }
  }
  kani::cover!(r.is_err(), "try_recv returned before the send landed");
  std::mem::forget(rx);
  std::mem::forget(tx);
}

/// C01 race: timed receive vs send. Timeout => the value is still in the channel; Ok => it is the value.
#[kani::proof]
#[kani::unwind(5)]
fn c01_q_spsc_recv_timeout_vs_send() {
  setup!(1, 0, tx, rx);
  sched::install(a_send7, 1, 1);
  let r = rx.as_mut().unwrap().recv_timeout(Duration::from_nanos(5));
  let sent_before_return = ACT_OK.load(Relaxed) == 1;
  sched::run_pending();
  sched::uninstall();
  match r {
    Ok(v) => assert!(v == 7 && sent_before_return, "C01: timed receive returned a value never sent"),
    Err(RecvErrorTimeout::Timeout) => {
      assert!(rx.as_ref().unwrap().try_recv() == Ok(7), "C01: Timeout consumed or lost the sent value");
    }
    Err(RecvErrorTimeout::Disconnected) => assert!(false, "C04: spurious Disconnected"),
  }
  kani::cover!(matches!(r, Err(RecvErrorTimeout::Timeout)) && sent_before_return, "timeout fired although the send had landed");
  kani::cover!(r.is_ok(), "timed receive got the value");
  std::mem::forget(rx);
  std::mem::forget(tx);
}

/// send_batch of two into a full cap-1 channel; two receives land anywhere: completes with Ok(2), order kept.
#[kani::proof]
#[kani::unwind(5)]
fn c05_x_spsc_send_batch_vs_recvs() {
  setup!(1, 1, tx, rx);
  sched::install(a_recv, 2, 1);
  sched::set_stuck_is_bug(true);
  let r = tx.as_ref().unwrap().send_batch(vec![8, 9]);
  match r {
    Ok(n) => assert!(n == 2, "C01: send_batch reported a wrong count"),
    Err(_) => assert!(false, "C05: send_batch failed although the receiver is alive"),
  }
  sched::run_pending();
  sched::uninstall();
  assert!(rx.as_ref().unwrap().try_recv() == Ok(9) || ACT_OK.load(Relaxed) < 2, "C02: batch order");
  std::mem::forget(rx);
  std::mem::forget(tx);
}

/// recv_batch blocked on empty; a send lands anywhere.
#[kani::proof]
#[kani::unwind(5)]
fn c05_x_spsc_recv_batch_vs_send() {
  setup!(2, 0, tx, rx);
  sched::install(a_send7, 1, 1);
  sched::set_stuck_is_bug(true);
  let r = rx.as_ref().unwrap().recv_batch(2);
  match r {
    Ok(v) => assert!(v.len() == 1 && v[0] == 7, "C05: recv_batch returned wrong values"),
    Err(_) => assert!(false, "C05: recv_batch failed although the sender is alive"),
  }
  std::mem::forget(rx);
  std::mem::forget(tx);
}

/// C04 straggler window for the timed receive: send(v) + drop of the last sender lands anywhere inside
/// recv_timeout: the result is never Disconnected while v is undelivered.
#[kani::proof]
#[kani::unwind(4)]
fn c04_x_spsc_recv_timeout_vs_send_then_drop() {
  setup!(1, 0, tx, rx);
  sched::install(a_send7_then_drop, 1, 1);
  let r = rx.as_mut().unwrap().recv_timeout(Duration::from_nanos(5));
  sched::run_pending();
  sched::uninstall();
  match r {
    Ok(v) => assert!(v == 7, "C01: received a value never sent"),
    Err(RecvErrorTimeout::Timeout) => {
      assert!(rx.as_ref().unwrap().try_recv() == Ok(7), "C04: sent value lost after the sender dropped");
    }
    Err(RecvErrorTimeout::Disconnected) => {
      assert!(false, "C04: Disconnected reported before the buffered value was drained");
    }
  }
  assert!(rx.as_ref().unwrap().try_recv() == Err(TryRecvError::Disconnected), "C04: no Disconnected after the drain");
  kani::cover!(r.is_ok(), "timed receive got the straggler");
  kani::cover!(r.is_err(), "timed out before the send landed");
  std::mem::forget(rx);
  std::mem::forget(tx);
}

/// Same window with a zero timeout and close() instead of drop (cheaper: fits the quick tier).
#[kani::proof]
#[kani::unwind(3)]
fn c04_q_spsc_recv_timeout0_vs_send_then_close() {
  setup!(1, 0, tx, rx);
  sched::install(a_send7_then_close, 1, 1);
  let r = rx.as_mut().unwrap().recv_timeout(Duration::ZERO);
  sched::run_pending();
  sched::uninstall();
  match r {
    Ok(v) => assert!(v == 7, "C01: received a value never sent"),
    Err(RecvErrorTimeout::Timeout) => {
      assert!(rx.as_ref().unwrap().try_recv() == Ok(7), "C04: sent value lost after the sender closed");
    }
    Err(RecvErrorTimeout::Disconnected) => {
      assert!(false, "C04: Disconnected reported before the buffered value was drained");
    }
  }
  kani::cover!(r.is_ok(), "timed receive got the straggler");
  kani::cover!(r.is_err(), "timed out before the send landed");
  std::mem::forget(rx);
  std::mem::forget(tx);
}

/// C01 view of the same window: a receiver that keeps calling recv_timeout until Disconnected must have
/// been handed every successfully sent value (here: the one value sent just before the sender closed).
#[kani::proof]
#[kani::unwind(3)]
fn c01_q_spsc_recv_timeout_drain_vs_send_then_close() {
  setup!(1, 0, tx, rx);
  sched::install(a_send7_then_close, 1, 1);
  let r1 = rx.as_mut().unwrap().recv_timeout(Duration::ZERO);
  sched::run_pending();
  sched::uninstall();
  let mut got = matches!(r1, Ok(7));
  let mut disc = matches!(r1, Err(RecvErrorTimeout::Disconnected));
  if !got && !disc {
    // timed out before the send landed: keep receiving
    let r2 = rx.as_mut().unwrap().recv_timeout(Duration::ZERO);
    got = matches!(r2, Ok(7));
    disc = matches!(r2, Err(RecvErrorTimeout::Disconnected));
  }
  assert!(!(disc && !got), "C01: Disconnected observed although a successfully sent value was never delivered");
  assert!(got, "C01: the sent value was not delivered to a receiver that kept receiving");
  kani::cover!(matches!(r1, Err(RecvErrorTimeout::Timeout)), "first timed receive timed out");
  kani::cover!(matches!(r1, Ok(_)), "first timed receive got the value");
  std::mem::forget(rx);
  std::mem::forget(tx);
}

/// C01: the receiver goes away at any synchronisation point inside a batch send: the error accounts for
/// every value (sent + unsent == input, unsent is the input suffix), nothing is silently dropped.
#[kani::proof]
#[kani::unwind(5)]
fn c01_q_spsc_try_send_batch_vs_receiver_drop() {
  setup!(2, 0, tx, rx);
  sched::install(a_drop_rx, 1, 1);
  let blocking = false;
  let (ok, sent, u0, u1, ulen) = if blocking {
    match tx.as_ref().unwrap().send_batch(vec![10, 11]) {
      Ok(n) => (true, n, 0, 0, 0),
      Err(e) => (false, e.sent, if e.unsent.len() > 0 { e.unsent[0] } else { 0 }, if e.unsent.len() > 1 { e.unsent[1] } else { 0 }, e.unsent.len()),
    }
  } else {
    match tx.as_ref().unwrap().try_send_batch(vec![10, 11]) {
      Ok(n) => (true, n, 0, 0, 0),
      Err(e) => (false, e.sent, if e.unsent.len() > 0 { e.unsent[0] } else { 0 }, if e.unsent.len() > 1 { e.unsent[1] } else { 0 }, e.unsent.len()),
    }
  };
  assert!(sent + ulen == 2, "C01: batch error lost a value: sent + unsent != input length");
  if ok {
    assert!(sent == 2, "C01: batch reported Ok with a wrong count");
  }
  if ulen == 2 {
    assert!(u0 == 10 && u1 == 11, "C01: unsent is not the input suffix in order");
  }
  if ulen == 1 {
    assert!(u0 == 11, "C01: unsent is not the input suffix in order");
  }
  kani::cover!(!ok && sent == 0, "receiver went away before the first write");
  std::mem::forget(rx);
  std::mem::forget(tx);
}

/// C01: the receiver goes away at any synchronisation point inside a batch send: the error accounts for
/// every value (sent + unsent == input, unsent is the input suffix), nothing is silently dropped.
#[kani::proof]
#[kani::unwind(5)]
fn c01_t_spsc_send_batch_vs_receiver_close() {
  setup!(2, 0, tx, rx);
  sched::install(a_close_rx, 1, 1);
  let blocking = true;
  let (ok, sent, u0, u1, ulen) = if blocking {
    match tx.as_ref().unwrap().send_batch(vec![10, 11]) {
      Ok(n) => (true, n, 0, 0, 0),
      Err(e) => (false, e.sent, if e.unsent.len() > 0 { e.unsent[0] } else { 0 }, if e.unsent.len() > 1 { e.unsent[1] } else { 0 }, e.unsent.len()),
    }
  } else {
    match tx.as_ref().unwrap().try_send_batch(vec![10, 11]) {
      Ok(n) => (true, n, 0, 0, 0),
      Err(e) => (false, e.sent, if e.unsent.len() > 0 { e.unsent[0] } else { 0 }, if e.unsent.len() > 1 { e.unsent[1] } else { 0 }, e.unsent.len()),
    }
  };
  assert!(sent + ulen == 2, "C01: batch error lost a value: sent + unsent != input length");
  if ok {
    assert!(sent == 2, "C01: batch reported Ok with a wrong count");
  }
  if ulen == 2 {
    assert!(u0 == 10 && u1 == 11, "C01: unsent is not the input suffix in order");
  }
  if ulen == 1 {
    assert!(u0 == 11, "C01: unsent is not the input suffix in order");
  }
  kani::cover!(!ok && sent == 0, "receiver went away before the first write");
  std::mem::forget(rx);
  std::mem::forget(tx);
}

/// playback / driver self-test probe (never part of a property)
#[kani::proof]
#[kani::unwind(5)]
fn zz_probe_playback() {
  setup!(1, 0, tx, rx);
  sched::install(a_send7, 1, 1);
  let r = rx.as_ref().unwrap().try_recv();
  assert!(!(r.is_err() && sched::pending() == 0), "PROBE: actor ran but try_recv saw Empty");
  std::mem::forget(rx);
  std::mem::forget(tx);
}
