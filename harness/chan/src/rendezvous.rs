//! Rendezvous channels (capacity 0; shared core internal/rendezvous.rs behind spsc/mpsc/mpmc fronts):
//! a blocking or timed operation on top, the peer's non-blocking operation injected at any
//! synchronisation point. From the moment the peer's operation reports success the top operation must
//! complete (stuck_is_bug is switched on by the actor).
use crate::common::*;
use fibre::__verif as sched;
use fibre::error::*;
use std::sync::atomic::{AtomicPtr, AtomicU8, Ordering::Relaxed};
use std::time::Duration;

static ACT_OK: AtomicU8 = AtomicU8::new(0);

macro_rules! rv_suite {
  ($modname:ident, $path:path, $h1:ident, $h2:ident, $h3:ident, $h4:ident, $h5:ident, $h6:ident) => {
    mod $modname {
      use super::*;
      use $path as rv;
      type Tx = rv::RendezvousSyncSender<u8>;
      type Rx = rv::RendezvousSyncReceiver<u8>;
      static TXP: AtomicPtr<Option<Tx>> = AtomicPtr::new(std::ptr::null_mut());
      static RXP: AtomicPtr<Option<Rx>> = AtomicPtr::new(std::ptr::null_mut());
      fn txh() -> &'static mut Option<Tx> {
        unsafe { &mut *TXP.load(Relaxed) }
      }
      fn rxh() -> &'static mut Option<Rx> {
        unsafe { &mut *RXP.load(Relaxed) }
      }
      fn a_try_send(_a: sched::ActorId) {
        match txh().as_ref().unwrap().try_send(7) {
          Ok(()) => {
            ACT_OK.store(1, Relaxed);
            sched::set_stuck_is_bug(true);
          }
          Err(TrySendError::Full(v)) => assert!(v == 7, "C01: Full did not hand the value back"),
          Err(_) => assert!(false, "C04: spurious Closed from try_send"),
        }
      }
      fn a_try_recv(_a: sched::ActorId) {
        match rxh().as_ref().unwrap().try_recv() {
          Ok(v) => {
            assert!(v == 7, "C01: received a value never sent");
            ACT_OK.store(1, Relaxed);
            sched::set_stuck_is_bug(true);
          }
          Err(TryRecvError::Empty) => {}
          Err(_) => assert!(false, "C04: spurious Disconnected from try_recv"),
        }
      }
      fn a_drop_tx(_a: sched::ActorId) {
        *txh() = None;
        sched::set_stuck_is_bug(true);
      }
      fn a_drop_rx(_a: sched::ActorId) {
        *rxh() = None;
        sched::set_stuck_is_bug(true);
      }
      macro_rules! setup {
        ($tx:ident, $rx:ident) => {
          let (t, r) = rv::rendezvous::<u8>();
          let mut $tx = Some(t);
          let mut $rx = Some(r);
          TXP.store(&mut $tx as *mut _, Relaxed);
          RXP.store(&mut $rx as *mut _, Relaxed);
        };
      }

      /// C03/C05: recv() parked; a try_send that pairs with it must make it return that value.
      #[kani::proof]
      #[kani::unwind(5)]
      pub(crate) fn $h1() {
        setup!(tx, rx);
        sched::install(a_try_send, 1, 1);
        let r = rx.as_ref().unwrap().recv();
        assert!(r == Ok(7) && ACT_OK.load(Relaxed) == 1, "C03: rendezvous recv completed without pairing with a successful send");
        kani::cover!(true, "the hand-off happened");
        std::mem::forget(rx);
        std::mem::forget(tx);
      }

      /// C03/C05: send() parked; a try_recv that pairs with it must make it return Ok.
      #[kani::proof]
      #[kani::unwind(5)]
      pub(crate) fn $h2() {
        setup!(tx, rx);
        sched::install(a_try_recv, 1, 1);
        let r = tx.as_ref().unwrap().send(7);
        assert!(r.is_ok() && ACT_OK.load(Relaxed) == 1, "C03: rendezvous send completed without pairing with a receive");
        kani::cover!(true, "the hand-off happened");
        std::mem::forget(rx);
        std::mem::forget(tx);
      }

      /// C01: timed receive racing with try_send: Timeout and a successful send must not both happen
      /// (the value would be lost); Ok(v) must be the sent value.
      #[kani::proof]
      #[kani::unwind(5)]
      pub(crate) fn $h3() {
        setup!(tx, rx);
        sched::install(a_try_send, 1, 1);
        let r = rx.as_ref().unwrap().recv_timeout(Duration::from_nanos(5));
        let sent = ACT_OK.load(Relaxed) == 1;
        match r {
          Ok(v) => assert!(v == 7 && sent, "C01: timed receive returned a value never sent"),
          Err(RecvErrorTimeout::Timeout) => assert!(!sent, "C01: send reported success but the timed receive returned Timeout (value lost)"),
          Err(RecvErrorTimeout::Disconnected) => assert!(false, "C04: spurious Disconnected"),
        }
        kani::cover!(r.is_ok(), "timed receive paired with the send");
        kani::cover!(r.is_err() && sched::started() == 1, "timeout although the sender had run");
        std::mem::forget(rx);
        std::mem::forget(tx);
      }

      /// C03 (rendezvous: a send completes only by pairing with a receive): same race as above, stated
      /// from the sender's side: if try_send reported Ok, the timed receive must have received.
      #[kani::proof]
      #[kani::unwind(5)]
      pub(crate) fn $h5() {
        setup!(tx, rx);
        sched::install(a_try_send, 1, 1);
        let r = rx.as_ref().unwrap().recv_timeout(Duration::from_nanos(5));
        let sent = ACT_OK.load(Relaxed) == 1;
        assert!(!sent || r.is_ok(), "C03: rendezvous try_send completed without pairing with a receive");
        kani::cover!(sent, "the hand-off happened");
        std::mem::forget(rx);
        std::mem::forget(tx);
      }

      /// C05/C04: recv() racing with the drop of the last sender at any synchronisation point: it must
      /// return Disconnected (parked forever after the drop = failed assertion).
      #[kani::proof]
      #[kani::unwind(5)]
      pub(crate) fn $h6() {
        setup!(tx, rx);
        sched::install(a_drop_tx, 1, 1);
        let r = rx.as_ref().unwrap().recv();
        assert!(r == Err(RecvError::Disconnected), "C05: parked rendezvous recv not released with Disconnected when the last sender dropped");
        kani::cover!(sched::started_at(1) > 1, "sender dropped after recv had started");
        std::mem::forget(rx);
        std::mem::forget(tx);
      }

      /// C04/C05: a parked recv()/send() is released with Disconnected/Closed when the peer goes away.
      #[kani::proof]
      #[kani::unwind(5)]
      pub(crate) fn $h4() {
        setup!(tx, rx);
        let recv_side: bool = kani::any();
        if recv_side {
          sched::install(a_drop_tx, 1, 1);
          let r = rx.as_ref().unwrap().recv();
          assert!(r == Err(RecvError::Disconnected), "C04: parked recv not released with Disconnected when the sender dropped");
        } else {
          sched::install(a_drop_rx, 1, 1);
          let r = tx.as_ref().unwrap().send(7);
          assert!(r == Err(SendError::Closed), "C04: parked send not released with Closed when the receiver dropped");
        }
        kani::cover!(recv_side, "receiver parked");
        kani::cover!(!recv_side, "sender parked");
        std::mem::forget(rx);
        std::mem::forget(tx);
      }
    }
  };
}
rv_suite!(spsc_rv, fibre::spsc::rendezvous, c05_q_rvspsc_recv_vs_try_send, c05_x_rvspsc_send_vs_try_recv, c01_q_rvspsc_recv_timeout_vs_try_send, c04_x_rvspsc_parked_vs_peer_drop, c03_q_rvspsc_try_send_ok_implies_paired, c05_q_rvspsc_recv_vs_sender_drop);
rv_suite!(mpsc_rv, fibre::mpsc::rendezvous, c05_q_rvmpsc_recv_vs_try_send, c05_x_rvmpsc_send_vs_try_recv, c01_q_rvmpsc_recv_timeout_vs_try_send, c04_x_rvmpsc_parked_vs_peer_drop, c03_q_rvmpsc_try_send_ok_implies_paired, c05_x_rvmpsc_recv_vs_sender_drop);
rv_suite!(mpmc_rv, fibre::mpmc::rendezvous, c05_x_rvmpmc_recv_vs_try_send, c05_x_rvmpmc_send_vs_try_recv, c01_x_rvmpmc_recv_timeout_vs_try_send, c04_x_rvmpmc_parked_vs_peer_drop, c03_x_rvmpmc_try_send_ok_implies_paired, c05_x_rvmpmc_recv_vs_sender_drop);

// ---------------------------------------------------------------- async fronts, sequential at poll granularity
use std::future::Future;
use std::pin::Pin;
use std::task::{Context, Poll};

fn poll_slot<F: Future>(slot: &mut Option<F>, w: usize) -> Poll<F::Output> {
  let f = unsafe { Pin::new_unchecked(slot.as_mut().unwrap()) };
  let wk = waker(w);
  let mut cx = Context::from_waker(&wk);
  f.poll(&mut cx)
}

macro_rules! rv_async_suite {
  ($modname:ident, $path:path, $sf:expr, $h1:ident, $h2:ident, $h3:ident) => {
    mod $modname {
      use super::*;
      use $path as rv;
      const SENDER_FIRST: bool = $sf;

      /// C03/C06: nothing completes without a partner; pairing wakes the pending side; the value is
      /// handed over exactly once. `sender_first` chooses which side is pending.
      #[kani::proof]
      #[kani::unwind(5)]
      pub(crate) fn $h1() {
        let (tx, rx) = rv::rendezvous_async::<u8>();
        assert!(matches!(tx.try_send(1), Err(TrySendError::Full(1))), "C03: rendezvous try_send succeeded with no receiver waiting");
        assert!(rx.try_recv() == Err(TryRecvError::Empty), "C03: rendezvous try_recv succeeded with no sender waiting");
        let sender_first: bool = SENDER_FIRST;
        if sender_first {
          let mut f = Some(tx.send(7));
          assert!(poll_slot(&mut f, 0).is_pending(), "C03: rendezvous send completed without pairing with a receive");
          assert!(rx.try_recv() == Ok(7), "C01: value of a parked sender not handed to try_recv");
          assert!(wakes(0) >= 1, "C06: pending rendezvous send not woken when a receiver took its value");
          assert!(matches!(poll_slot(&mut f, 0), Poll::Ready(Ok(()))), "C06: woken rendezvous send did not complete");
          f = None;
          assert!(rx.try_recv() == Err(TryRecvError::Empty), "C01: rendezvous value delivered twice");
        } else {
          let mut g = Some(rx.recv());
          assert!(poll_slot(&mut g, 1).is_pending(), "C03: rendezvous recv completed without a sender");
          assert!(tx.try_send(7).is_ok(), "C03: try_send failed although a receiver is waiting");
          assert!(wakes(1) >= 1, "C06: pending rendezvous recv not woken when a sender handed a value over");
          assert!(matches!(poll_slot(&mut g, 1), Poll::Ready(Ok(7))), "C06: woken rendezvous recv did not complete with the value");
          g = None;
          assert!(matches!(tx.try_send(8), Err(TrySendError::Full(8))), "C03: rendezvous try_send succeeded after the receiver had completed");
        }
        kani::cover!(true, "scenario ran to its end");
      }

      /// C06/C09: a cancelled pending send does not ghost-deliver and its value is dropped exactly once;
      /// a cancelled pending recv consumes nothing.
      #[kani::proof]
      #[kani::unwind(5)]
      pub(crate) fn $h2() {
        let (tx, rx) = rv::rendezvous_async::<Tag>();
        let cancel_send: bool = SENDER_FIRST;
        if cancel_send {
          let mut f = Some(tx.send(Tag(0)));
          assert!(poll_slot(&mut f, 0).is_pending(), "C03: rendezvous send completed without pairing with a receive");
          f = None;
          assert!(drops(0) == 1, "C09: value of a cancelled rendezvous send not dropped exactly once");
          assert!(rx.try_recv().is_err(), "C06: cancelled rendezvous send delivered its value");
        } else {
          let mut g = Some(rx.recv());
          assert!(poll_slot(&mut g, 1).is_pending(), "C03: rendezvous recv completed without a sender");
          g = None;
          match tx.try_send(Tag(0)) {
            Err(TrySendError::Full(v)) => drop(v),
            _ => assert!(false, "C06: try_send paired with a cancelled receive"),
          }
          assert!(drops(0) == 1, "C09: value handed back by try_send not dropped exactly once");
        }
        kani::cover!(true, "scenario ran to its end");
      }

      /// C04/C06: a pending send / recv is woken and fails when the peer handle goes away.
      #[kani::proof]
      #[kani::unwind(5)]
      pub(crate) fn $h3() {
        let (tx, rx) = rv::rendezvous_async::<u8>();
        let sender_pending: bool = SENDER_FIRST;
        if sender_pending {
          let mut f = Some(tx.send(7));
          assert!(poll_slot(&mut f, 0).is_pending(), "C03: rendezvous send completed without pairing with a receive");
          drop(rx);
          assert!(wakes(0) >= 1, "C06: pending rendezvous send not woken when the receiver went away");
          assert!(matches!(poll_slot(&mut f, 0), Poll::Ready(Err(_))), "C04: pending rendezvous send did not report Closed");
          f = None;
        } else {
          let mut g = Some(rx.recv());
          assert!(poll_slot(&mut g, 1).is_pending(), "C03: rendezvous recv completed without a sender");
          drop(tx);
          assert!(wakes(1) >= 1, "C06: pending rendezvous recv not woken when the sender went away");
          assert!(matches!(poll_slot(&mut g, 1), Poll::Ready(Err(_))), "C04: pending rendezvous recv did not report Disconnected");
          g = None;
        }
        kani::cover!(true, "scenario ran to its end");
      }
    }
  };
}
rv_async_suite!(spsc_rva_s, fibre::spsc::rendezvous, true, c03_x_rvspsc_async_pairing_sender_first, c06_x_rvspsc_async_cancel_send, c04_x_rvspsc_async_receiver_gone);
rv_async_suite!(spsc_rva_r, fibre::spsc::rendezvous, false, c03_q_rvspsc_async_pairing_receiver_first, c06_q_rvspsc_async_cancel_recv, c04_q_rvspsc_async_sender_gone);
rv_async_suite!(mpsc_rva_s, fibre::mpsc::rendezvous, true, c03_x_rvmpsc_async_pairing_sender_first, c06_x_rvmpsc_async_cancel_send, c04_x_rvmpsc_async_receiver_gone);
rv_async_suite!(mpsc_rva_r, fibre::mpsc::rendezvous, false, c03_x_rvmpsc_async_pairing_receiver_first, c06_x_rvmpsc_async_cancel_recv, c04_x_rvmpsc_async_sender_gone);

/// C04: a receive is pending, then the receiver handle is closed: every later send form reports Closed
/// and hands the value back; the pending receive never yields a value afterwards.
#[kani::proof]
#[kani::unwind(5)]
fn c04_q_rvspsc_async_send_after_receiver_closed() {
  let (tx, rx) = fibre::spsc::rendezvous::rendezvous_async::<u8>();
  let mut g = Some(rx.recv());
  assert!(poll_slot(&mut g, 1).is_pending(), "C03: rendezvous recv completed without a sender");
  assert!(rx.close().is_ok(), "C04: first close() failed");
  assert!(rx.close().is_err(), "C04: second close() did not report CloseError");
  match tx.try_send(7) {
    Err(TrySendError::Closed(v)) => assert!(v == 7, "C04: Closed did not hand the value back"),
    _ => assert!(false, "C04: try_send succeeded (or reported Full) after the receiver closed"),
  }
  match poll_slot(&mut g, 1) {
    Poll::Ready(Ok(_)) => assert!(false, "C04: a closed receiver obtained a value"),
    _ => {}
  }
  g = None; // a registered rendezvous future points the channel at its own storage: it must be dropped, not leaked
  kani::cover!(true, "scenario ran to its end");
}
