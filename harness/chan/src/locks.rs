//! C10: HybridMutex / HybridRwLock. Poll-level sequential programs with counting wakers, and
//! nested-preemption scenarios (a release / cancel injected at any synchronisation point).
use crate::common::*;
use fibre::__verif as sched;
use fibre::sync::{HybridMutex, HybridRwLock, MutexGuard, ReadGuard, WriteGuard};
use std::future::Future;
use std::pin::Pin;
use std::sync::atomic::{AtomicPtr, Ordering::Relaxed};
use std::task::{Context, Poll};

type MFut = Pin<Box<dyn Future<Output = MutexGuard<'static, u8>>>>;

/// Poll a future living in a stack slot (never moved while Some: pinned in place; `= None` drops it in place).
fn poll_slot<F: Future>(slot: &mut Option<F>, w: usize) -> Poll<F::Output> {
  let f = unsafe { Pin::new_unchecked(slot.as_mut().unwrap()) };
  poll_with(f, w)
}
fn mk_lock<'a>(m: &'a HybridMutex<u8>) -> impl Future<Output = MutexGuard<'a, u8>> + 'a {
  m.lock_async()
}
fn mk_read<'a>(l: &'a HybridRwLock<u8>) -> impl Future<Output = ReadGuard<'a, u8>> + 'a {
  l.read_async()
}
fn mk_write<'a>(l: &'a HybridRwLock<u8>) -> impl Future<Output = WriteGuard<'a, u8>> + 'a {
  l.write_async()
}

fn poll_with<F: Future + ?Sized>(f: Pin<&mut F>, w: usize) -> Poll<F::Output> {
  let wk = waker(w);
  let mut cx = Context::from_waker(&wk);
  f.poll(&mut cx)
}

/// C10 (mutex, sequential at poll granularity): two async acquirers + try_lock + guard drop + future drop.
/// Oracle: one guard at a time; whenever the lock is free and some future is pending, one pending future
/// has been woken since its last poll (an executor that polls only woken tasks does not stall).
macro_rules! mutex_seq {
  ($name:ident, $n:expr, $unw:expr) => {
    #[kani::proof]
    #[kani::unwind($unw)]
    fn $name() {
      let m_stack = HybridMutex::new(0u8);
  let m: &'static HybridMutex<u8> = unsafe { &*(&m_stack as *const HybridMutex<u8>) }; // on the stack: CBMC tracks stack objects precisely
      let mut guard: Option<MutexGuard<'static, u8>> = None;
      let mut futs = [None, None];
      let mut pending = [false; 2]; // polled Pending and still alive
      let mut base = [0u32; 2]; // wake count at the last poll
      let mut step = 0;
      let mut cancelled_woken = false;
      while step < $n {
        let op: u8 = kani::any();
        kani::assume(op < 6);
        if op == 0 {
          if guard.is_none() {
            // nobody but `guard` (or a Ready future's guard stored there) can hold the lock
            let r = m.try_lock();
            assert!(r.is_some(), "C10: try_lock failed on a free mutex");
            guard = r;
          } else {
            assert!(m.try_lock().is_none(), "C10: two mutex guards coexist");
          }
        } else if op == 1 {
          guard = None;
        } else if op == 2 || op == 3 {
          let i = (op - 2) as usize;
          if futs[i].is_none() {
            futs[i] = Some(mk_lock(m));
            pending[i] = false;
          }
          base[i] = wakes(i);
          match poll_slot(&mut futs[i], i) {
            Poll::Ready(g) => {
              assert!(guard.is_none(), "C10: lock_async acquired while a guard exists");
              guard = Some(g);
              futs[i] = None;
              pending[i] = false;
            }
            Poll::Pending => {
              assert!(guard.is_some(), "C10: lock_async pending on a free mutex");
              pending[i] = true;
            }
          }
        } else {
          let i = (op - 4) as usize;
          if futs[i].is_some() {
            if pending[i] && wakes(i) > base[i] {
              cancelled_woken = true;
            }
            futs[i] = None;
            pending[i] = false;
          }
        }
        // no stall: lock free and somebody pending => somebody pending has been woken
        if guard.is_none() && (pending[0] || pending[1]) {
          let w0 = pending[0] && wakes(0) > base[0];
          let w1 = pending[1] && wakes(1) > base[1];
          assert!(w0 || w1, "C10: mutex is free but no pending lock future was woken (lost wakeup)");
        }
        step += 1;
      }
      kani::cover!(cancelled_woken, "a woken future was cancelled");
      kani::cover!(pending[0] && pending[1], "two futures pending at the end");
      std::mem::forget(guard);
      std::mem::forget(futs);
    }
  };
}
mutex_seq!(c10_x_mutex_seq_n3, 3, 5);
mutex_seq!(c10_x_mutex_seq_n6, 6, 7);

// ---------------------------------------------------------------- rwlock sequential
type RFut = Pin<Box<dyn Future<Output = ReadGuard<'static, u8>>>>;
type WFut = Pin<Box<dyn Future<Output = WriteGuard<'static, u8>>>>;

/// C10 (rwlock, sequential at poll granularity): one async reader, one async writer, try_read/try_write,
/// guard drops, future drops. Oracle: guard-coexistence matrix; no stall when an acquisition is possible.
macro_rules! rwlock_seq {
  ($name:ident, $n:expr, $unw:expr) => {
    #[kani::proof]
    #[kani::unwind($unw)]
    fn $name() {
      let l_stack = HybridRwLock::new(0u8);
  let l: &'static HybridRwLock<u8> = unsafe { &*(&l_stack as *const HybridRwLock<u8>) };
      let mut rg: [Option<ReadGuard<'static, u8>>; 2] = [None, None];
      let mut wg: Option<WriteGuard<'static, u8>> = None;
      let mut rf = None; // waker 0
      let mut wf = None; // waker 1
      let mut rpend = false;
      let mut wpend = false;
      let mut base = [0u32; 2];
      let mut step = 0;
      while step < $n {
        let op: u8 = kani::any();
        kani::assume(op < 8);
        let readers = rg[0].is_some() as u8 + rg[1].is_some() as u8;
        if op == 0 {
          // try_read into a free slot
          let slot = if rg[0].is_none() { 0 } else { 1 };
          if rg[slot].is_none() {
            let r = l.try_read();
            if r.is_some() {
              assert!(wg.is_none(), "C10: read guard granted while a write guard exists");
            } else {
              assert!(wg.is_some() || wpend, "C10: try_read failed with no writer holding or queued");
            }
            rg[slot] = r;
          }
        } else if op == 1 {
          if wg.is_none() {
            let r = l.try_write();
            if r.is_some() {
              assert!(readers == 0, "C10: write guard granted while read guards exist");
            } else {
              assert!(readers > 0, "C10: try_write failed on a free lock");
            }
            wg = r;
          } else {
            assert!(l.try_write().is_none(), "C10: two write guards coexist");
            assert!(l.try_read().is_none(), "C10: read guard coexists with a write guard");
          }
        } else if op == 2 {
          if rg[1].is_some() { rg[1] = None; } else { rg[0] = None; }
        } else if op == 3 {
          wg = None;
        } else if op == 4 {
          if rf.is_none() {
            rf = Some(mk_read(l));
            rpend = false;
          }
          base[0] = wakes(0);
          match poll_slot(&mut rf, 0) {
            Poll::Ready(g) => {
              assert!(wg.is_none(), "C10: read_async acquired while a write guard exists");
              rf = None;
              rpend = false;
              if rg[0].is_none() { rg[0] = Some(g); } else if rg[1].is_none() { rg[1] = Some(g); } else { drop(g); }
            }
            Poll::Pending => {
              assert!(wg.is_some() || wpend, "C10: read_async pending with no writer holding or queued");
              rpend = true;
            }
          }
        } else if op == 5 {
          if wf.is_none() {
            wf = Some(mk_write(l));
            wpend = false;
          }
          base[1] = wakes(1);
          match poll_slot(&mut wf, 1) {
            Poll::Ready(g) => {
              assert!(wg.is_none() && readers == 0, "C10: write_async acquired while another guard exists");
              wf = None;
              wpend = false;
              wg = Some(g);
            }
            Poll::Pending => {
              assert!(wg.is_some() || readers > 0, "C10: write_async pending on a free lock");
              wpend = true;
            }
          }
        } else if op == 6 {
          rf = None;
          rpend = false;
        } else {
          wf = None;
          wpend = false;
        }
        // no stall
        let readers = rg[0].is_some() as u8 + rg[1].is_some() as u8;
        let free = wg.is_none() && readers == 0;
        let rw = rpend && wakes(0) > base[0];
        let ww = wpend && wakes(1) > base[1];
        if free && (rpend || wpend) {
          assert!(rw || ww, "C10: rwlock is free but no pending future was woken (lost wakeup)");
        }
        if wg.is_none() && rpend && !wpend {
          assert!(rw, "C10: pending reader not woken although no writer holds or waits");
        }
        step += 1;
      }
      kani::cover!(rpend && wpend, "reader and writer futures pending at the end");
      kani::cover!(rg[0].is_some() && rg[1].is_some(), "two read guards coexist");
      std::mem::forget(rg);
      std::mem::forget(wg);
      std::mem::forget(rf);
      std::mem::forget(wf);
    }
  };
}
rwlock_seq!(c10_x_rwlock_seq_n3, 3, 5);
rwlock_seq!(c10_x_rwlock_seq_n6, 6, 7);

// ---------------------------------------------------------------- nested preemption
static MG: AtomicPtr<Option<MutexGuard<'static, u8>>> = AtomicPtr::new(std::ptr::null_mut());
fn actor_drop_mutex_guard(_a: sched::ActorId) {
  let g = unsafe { &mut *MG.load(Relaxed) };
  *g = None;
}

/// C10: blocking lock() while another logical thread holds the mutex and releases it at scheduling
/// point `at` of the acquirer (every `at` <= 40, or after it parked): lock() must return.
#[kani::proof]
#[kani::unwind(5)]
fn c10_q_mutex_lock_vs_unlock() {
  with_pick(40, |at| {
    let m_stack = HybridMutex::new(0u8);
  let m: &'static HybridMutex<u8> = unsafe { &*(&m_stack as *const HybridMutex<u8>) }; // on the stack: CBMC tracks stack objects precisely
    let mut held = m.try_lock();
    assert!(held.is_some(), "C10: try_lock failed on a free mutex");
    MG.store(&mut held as *mut _, Relaxed);
    sched::install(actor_drop_mutex_guard, 1, 1);
    sched::set_preempt_at(at);
    sched::set_stuck_is_bug(true);
    let g = m.lock();
    assert!(held.is_none(), "C10: lock() returned while another guard exists");
    assert!(sched::points() <= 40, "VERIF-BOUND: more scheduling points than the dispatch covers");
    kani::cover!(sched::started_at(1) > 3, "release happened after the acquirer's first attempts");
    kani::cover!(sched::in_park() || sched::started_at(1) > 8, "release happened late");
    std::mem::forget(g);
  });
}

static MREF: AtomicPtr<HybridMutex<u8>> = AtomicPtr::new(std::ptr::null_mut());
fn actor_release_then_barge(a: sched::ActorId) {
  let g = unsafe { &mut *MG.load(Relaxed) };
  if a.0 == 1 {
    // the holder releases and another thread barges in straight away
    *g = None;
    let m = unsafe { &*MREF.load(Relaxed) };
    *g = m.try_lock();
  } else {
    *g = None;
  }
}

/// C10: blocking lock() racing with a release that is immediately followed by another (barging)
/// acquisition, whose holder releases only after the waiter has parked: the waiter must still be woken.
/// Actor 1 (release + barge) starts at scheduling point `at`; actor 2 (final release) runs once the
/// waiter is parked.
#[kani::proof]
#[kani::unwind(5)]
fn c10_q_mutex_lock_vs_release_and_barge() {
  with_pick(24, |at| {
    let m_stack = HybridMutex::new(0u8);
    let m: &'static HybridMutex<u8> = unsafe { &*(&m_stack as *const HybridMutex<u8>) };
    let mut held = m.try_lock();
    assert!(held.is_some(), "C10: try_lock failed on a free mutex");
    MG.store(&mut held as *mut _, Relaxed);
    MREF.store(m as *const _ as *mut _, Relaxed);
    sched::set_preempt_at(at);
    sched::install(actor_release_then_barge, 2, 1);
    sched::set_stuck_is_bug(true);
    let g = m.lock();
    assert!(held.is_none(), "C10: lock() returned while another guard exists");
    assert!(sched::points() <= 60, "VERIF-BOUND: more scheduling points than expected");
    kani::cover!(sched::started() == 2, "waiter acquired after the barging holder released");
    kani::cover!(sched::started_at(1) > 6, "release-and-barge happened after the waiter announced itself");
    std::mem::forget(g);
    std::mem::forget(held);
  });
}

static MF: AtomicPtr<Option<MFut>> = AtomicPtr::new(std::ptr::null_mut());
fn actor_cancel_mutex_future(_a: sched::ActorId) {
  let f = unsafe { &mut *MF.load(Relaxed) };
  *f = None;
}

/// C10: cancelling the head waiter's future while the holder releases (cancel on top, release injected
/// at any synchronisation point of the cancel): the next pending future must end up woken.
#[kani::proof]
#[kani::unwind(5)]
fn c10_x_mutex_cancel_vs_unlock() {
  let m_stack = HybridMutex::new(0u8);
  let m: &'static HybridMutex<u8> = unsafe { &*(&m_stack as *const HybridMutex<u8>) }; // on the stack: CBMC tracks stack objects precisely
  let mut held = m.try_lock();
  let mut f1 = Some(mk_lock(m));
  let mut f2 = Some(mk_lock(m));
  assert!(poll_slot(&mut f1, 0).is_pending(), "C10: lock_async acquired a held mutex");
  assert!(poll_slot(&mut f2, 1).is_pending(), "C10: lock_async acquired a held mutex");
  with_pick(12, |at| {
  MG.store(&mut held as *mut _, Relaxed);
  sched::set_preempt_at(at);
  sched::install(actor_drop_mutex_guard, 1, 1);
  f1 = None; // cancel the head waiter; the release lands somewhere inside (or after)
  sched::run_pending();
  sched::uninstall();
  assert!(wakes(1) > 0, "C10: mutex free, head waiter cancelled, next waiter never woken (lost wakeup)");
  kani::cover!(wakes(0) > 0, "the cancelled waiter had been woken");
  kani::cover!(wakes(0) == 0, "the cancelled waiter had not been woken");
  assert!(sched::points() <= 12, "VERIF-BOUND: more scheduling points than the dispatch covers");
  });
  std::mem::forget(f2);
  std::mem::forget(f1);
  std::mem::forget(held);
}

/// Same with the roles swapped: release on top, cancel injected.
#[kani::proof]
#[kani::unwind(5)]
fn c10_x_mutex_unlock_vs_cancel() {
  let m_stack = HybridMutex::new(0u8);
  let m: &'static HybridMutex<u8> = unsafe { &*(&m_stack as *const HybridMutex<u8>) }; // on the stack: CBMC tracks stack objects precisely
  let mut held = m.try_lock();
  let mut f1: Option<MFut> = Some(Box::pin(m.lock_async()));
  let mut f2: Option<MFut> = Some(Box::pin(m.lock_async()));
  assert!(poll_with(f1.as_mut().unwrap().as_mut(), 0).is_pending(), "C10: lock_async acquired a held mutex");
  assert!(poll_with(f2.as_mut().unwrap().as_mut(), 1).is_pending(), "C10: lock_async acquired a held mutex");
  with_pick(12, |at| {
  MF.store(&mut f1 as *mut _, Relaxed);
  sched::set_preempt_at(at);
  sched::install(actor_cancel_mutex_future, 1, 1);
  held = None;
  sched::run_pending();
  sched::uninstall();
  assert!(wakes(1) > 0, "C10: mutex free, head waiter cancelled, next waiter never woken (lost wakeup)");
  kani::cover!(wakes(0) > 0, "the cancelled waiter had been woken");
  assert!(sched::points() <= 12, "VERIF-BOUND: more scheduling points than the dispatch covers");
  });
  std::mem::forget(f2);
  std::mem::forget(f1);
  std::mem::forget(held);
}

// ---- rwlock
static WGP: AtomicPtr<Option<WriteGuard<'static, u8>>> = AtomicPtr::new(std::ptr::null_mut());
static RGP: AtomicPtr<Option<ReadGuard<'static, u8>>> = AtomicPtr::new(std::ptr::null_mut());
static WFP: AtomicPtr<Option<WFut>> = AtomicPtr::new(std::ptr::null_mut());
static LOCKP: AtomicPtr<HybridRwLock<u8>> = AtomicPtr::new(std::ptr::null_mut());
fn actor_drop_write_guard(_a: sched::ActorId) {
  let g = unsafe { &mut *WGP.load(Relaxed) };
  *g = None;
}
fn actor_drop_read_guard(_a: sched::ActorId) {
  let g = unsafe { &mut *RGP.load(Relaxed) };
  *g = None;
}
fn actor_cancel_write_future(_a: sched::ActorId) {
  let f = unsafe { &mut *WFP.load(Relaxed) };
  *f = None;
}

/// C10: blocking write() vs the last reader leaving at any point.
#[kani::proof]
#[kani::unwind(5)]
fn c10_q_rw_write_vs_read_unlock() {
  with_pick(40, |at| {
  let l_stack = HybridRwLock::new(0u8);
  let l: &'static HybridRwLock<u8> = unsafe { &*(&l_stack as *const HybridRwLock<u8>) };
  let mut r = l.try_read();
  assert!(r.is_some(), "C10: try_read failed on a free lock");
  RGP.store(&mut r as *mut _, Relaxed);
  sched::set_preempt_at(at);
  sched::install(actor_drop_read_guard, 1, 1);
  sched::set_stuck_is_bug(true);
  let w = l.write();
  assert!(r.is_none(), "C10: write() returned while a read guard exists");
  kani::cover!(sched::started_at(1) > 3, "reader left after the writer's first attempts");
  std::mem::forget(w);
  assert!(sched::points() <= 40, "VERIF-BOUND: more scheduling points than the dispatch covers");
  });
}

/// C10: blocking read() vs the writer releasing at any point.
#[kani::proof]
#[kani::unwind(5)]
fn c10_x_rw_read_vs_write_unlock() {
  with_pick(40, |at| {
  let l_stack = HybridRwLock::new(0u8);
  let l: &'static HybridRwLock<u8> = unsafe { &*(&l_stack as *const HybridRwLock<u8>) };
  let mut w = l.try_write();
  assert!(w.is_some(), "C10: try_write failed on a free lock");
  WGP.store(&mut w as *mut _, Relaxed);
  sched::set_preempt_at(at);
  sched::install(actor_drop_write_guard, 1, 1);
  sched::set_stuck_is_bug(true);
  let r = l.read();
  assert!(w.is_none(), "C10: read() returned while a write guard exists");
  std::mem::forget(r);
  assert!(sched::points() <= 40, "VERIF-BOUND: more scheduling points than the dispatch covers");
  });
}

/// C10: cancelling the first queued writer future while the write guard is released; a second queued
/// writer must end up woken (cancel on top, release injected).
#[kani::proof]
#[kani::unwind(5)]
fn c10_x_rw_cancel_writer_vs_unlock() {
  let l_stack = HybridRwLock::new(0u8);
  let l: &'static HybridRwLock<u8> = unsafe { &*(&l_stack as *const HybridRwLock<u8>) };
  let mut held = l.try_write();
  let mut f1 = Some(mk_write(l));
  let mut f2 = Some(mk_write(l));
  assert!(poll_slot(&mut f1, 0).is_pending(), "C10: write_async acquired a held lock");
  assert!(poll_slot(&mut f2, 1).is_pending(), "C10: write_async acquired a held lock");
  with_pick(14, |at| {
  WGP.store(&mut held as *mut _, Relaxed);
  sched::set_preempt_at(at);
  sched::install(actor_drop_write_guard, 1, 1);
  f1 = None;
  sched::run_pending();
  sched::uninstall();
  assert!(wakes(1) > 0, "C10: lock free, first queued writer cancelled, second writer never woken (lost wakeup)");
  kani::cover!(wakes(0) > 0, "the cancelled writer had been woken");
  kani::cover!(wakes(0) == 0, "the cancelled writer had not been woken");
  assert!(sched::points() <= 14, "VERIF-BOUND: more scheduling points than the dispatch covers");
  });
  std::mem::forget(f2);
  std::mem::forget(f1);
  std::mem::forget(held);
}

/// Roles swapped: release on top, cancel injected.
#[kani::proof]
#[kani::unwind(5)]
fn c10_x_rw_unlock_vs_cancel_writer() {
  let l_stack = HybridRwLock::new(0u8);
  let l: &'static HybridRwLock<u8> = unsafe { &*(&l_stack as *const HybridRwLock<u8>) };
  let mut held = l.try_write();
  let mut f1: Option<WFut> = Some(Box::pin(l.write_async()));
  let mut f2: Option<WFut> = Some(Box::pin(l.write_async()));
  assert!(poll_with(f1.as_mut().unwrap().as_mut(), 0).is_pending(), "C10: write_async acquired a held lock");
  assert!(poll_with(f2.as_mut().unwrap().as_mut(), 1).is_pending(), "C10: write_async acquired a held lock");
  with_pick(14, |at| {
  WFP.store(&mut f1 as *mut _, Relaxed);
  sched::set_preempt_at(at);
  sched::install(actor_cancel_write_future, 1, 1);
  held = None;
  sched::run_pending();
  sched::uninstall();
  assert!(wakes(1) > 0, "C10: lock free, first queued writer cancelled, second writer never woken (lost wakeup)");
  assert!(sched::points() <= 14, "VERIF-BOUND: more scheduling points than the dispatch covers");
  });
  std::mem::forget(f2);
  std::mem::forget(f1);
  std::mem::forget(held);
}

fn actor_reader_arrives(_a: sched::ActorId) {
  // a reader arriving while the writer is parked in the queue must not get in front of it
  let l = unsafe { &*LOCKP.load(Relaxed) };
  if sched::in_park() {
    assert!(l.try_read().is_none(), "C10: a late reader barged past a queued, parked writer (writer starvation)");
  }
  let g = unsafe { &mut *RGP.load(Relaxed) };
  *g = None;
}
/// C10: writer starvation: a writer parked behind one reader; a new reader arrives, then the old one leaves.
#[kani::proof]
#[kani::unwind(5)]
fn c10_q_rw_writer_not_starved() {
  with_pick(40, |at| {
  let l_stack = HybridRwLock::new(0u8);
  let l: &'static HybridRwLock<u8> = unsafe { &*(&l_stack as *const HybridRwLock<u8>) };
  let mut r = l.try_read();
  RGP.store(&mut r as *mut _, Relaxed);
  LOCKP.store(l as *const _ as *mut _, Relaxed);
  sched::set_preempt_at(at);
  sched::install(actor_reader_arrives, 1, 1);
  sched::set_stuck_is_bug(true);
  let w = l.write();
  assert!(r.is_none(), "C10: write() returned while a read guard exists");
  kani::cover!(true, "writer acquired after the old reader left");
  std::mem::forget(w);
  assert!(sched::points() <= 40, "VERIF-BOUND: more scheduling points than the dispatch covers");
  });
}


/// C10 (sequential orders): two queued async acquirers; the head one is cancelled before or after
/// the holder releases: the other one must end up woken, and then acquires.
#[kani::proof]
#[kani::unwind(5)]
fn c10_q_mutex_cancel_orders() {
  let m = HybridMutex::new(0u8);
  let held = m.try_lock();
  let mut f1 = Some(mk_lock(&m));
  let mut f2 = Some(mk_lock(&m));
  assert!(poll_slot(&mut f1, 0).is_pending(), "C10: lock_async acquired a held mutex");
  assert!(poll_slot(&mut f2, 1).is_pending(), "C10: lock_async acquired a held mutex");
  let cancel_first: bool = kani::any();
  if cancel_first {
    f1 = None;
    drop(held);
  } else {
    drop(held);
    assert!(wakes(0) == 1, "C10: head waiter not woken on release");
    f1 = None;
  }
  assert!(wakes(1) >= 1, "C10: mutex free, head waiter cancelled, next waiter never woken (lost wakeup)");
  match poll_slot(&mut f2, 1) {
    Poll::Ready(g) => std::mem::forget(g),
    Poll::Pending => assert!(false, "C10: woken waiter could not acquire a free mutex"),
  }
  assert!(m.try_lock().is_none(), "C10: two mutex guards coexist");
  kani::cover!(cancel_first, "cancel before release");
  kani::cover!(!cancel_first, "cancel after the wake was consumed");
  std::mem::forget(f2);
}

/// Same for two queued writers of the rwlock.
#[kani::proof]
#[kani::unwind(5)]
fn c10_x_rw_cancel_orders() {
  let l = HybridRwLock::new(0u8);
  let held = l.try_write();
  let mut f1 = Some(mk_write(&l));
  let mut f2 = Some(mk_write(&l));
  assert!(poll_slot(&mut f1, 0).is_pending(), "C10: write_async acquired a held lock");
  assert!(poll_slot(&mut f2, 1).is_pending(), "C10: write_async acquired a held lock");
  let cancel_first: bool = kani::any();
  if cancel_first {
    f1 = None;
    drop(held);
  } else {
    drop(held);
    assert!(wakes(0) == 1, "C10: first queued writer not woken on release");
    f1 = None;
  }
  assert!(wakes(1) >= 1, "C10: lock free, first queued writer cancelled, second writer never woken (lost wakeup)");
  match poll_slot(&mut f2, 1) {
    Poll::Ready(g) => std::mem::forget(g),
    Poll::Pending => assert!(false, "C10: woken writer could not acquire a free lock"),
  }
  assert!(l.try_read().is_none(), "C10: read guard coexists with a write guard");
  kani::cover!(cancel_first, "cancel before release");
  kani::cover!(!cancel_first, "cancel after the wake was consumed");
  std::mem::forget(f2);
}

/// C10 (guard-coexistence matrix, try_ forms never block): symbolic program of try_read / try_write /
/// guard drops on one rwlock: a write guard never coexists with any other guard, read guards coexist,
/// try_ succeeds exactly when the matrix allows it (no waiter is queued in these programs).
macro_rules! rw_try_matrix {
  ($name:ident, $n:expr, $unw:expr) => {
    #[kani::proof]
    #[kani::unwind($unw)]
    fn $name() {
      let l = HybridRwLock::new(0u8);
      let mut r0 = None;
      let mut r1 = None;
      let mut w = None;
      let mut step = 0;
      while step < $n {
        let op: u8 = kani::any();
        kani::assume(op < 5);
        let readers = r0.is_some() as u8 + r1.is_some() as u8;
        if op == 0 {
          if r0.is_none() {
            r0 = l.try_read();
            assert!(r0.is_some() == w.is_none(), "C10: try_read must succeed exactly when no write guard exists");
          } else if r1.is_none() {
            r1 = l.try_read();
            assert!(r1.is_some() == w.is_none(), "C10: try_read must succeed exactly when no write guard exists");
          }
        } else if op == 1 {
          if w.is_none() {
            w = l.try_write();
            assert!(w.is_some() == (readers == 0), "C10: try_write must succeed exactly when no other guard exists");
          } else {
            assert!(l.try_write().is_none(), "C10: two write guards coexist");
          }
        } else if op == 2 {
          r0 = None;
        } else if op == 3 {
          r1 = None;
        } else {
          if let Some(g) = w.as_mut() {
            **g += 1;
          }
          w = None;
        }
        assert!(!(w.is_some() && (r0.is_some() || r1.is_some())), "C10: a write guard coexists with a read guard");
        step += 1;
      }
      kani::cover!(r0.is_some() && r1.is_some(), "two read guards coexist");
      kani::cover!(w.is_some(), "write guard held at the end");
      std::mem::forget(r0);
      std::mem::forget(r1);
      std::mem::forget(w);
    }
  };
}
rw_try_matrix!(c10_x_rw_try_matrix_n3, 3, 4);
rw_try_matrix!(c10_x_rw_try_matrix_n5, 5, 6);

/// Same for the mutex: try_lock succeeds exactly when no guard exists.
#[kani::proof]
#[kani::unwind(6)]
fn c10_q_mutex_try_matrix_n5() {
  let m = HybridMutex::new(0u8);
  let mut g = None;
  let mut step = 0;
  let mut locks = 0u8;
  while step < 5 {
    if kani::any() {
      if g.is_none() {
        g = m.try_lock();
        assert!(g.is_some(), "C10: try_lock failed on a free mutex");
        locks += 1;
      } else {
        assert!(m.try_lock().is_none(), "C10: two mutex guards coexist");
      }
    } else {
      if let Some(x) = g.as_mut() {
        **x += 1;
      }
      g = None;
    }
    step += 1;
  }
  kani::cover!(locks >= 2, "locked twice");
  std::mem::forget(g);
}

/// C10: a reader holds the lock, a writer future queues (which gates new readers), a reader future
/// queues behind it, the writer future is cancelled before it was ever woken, then the last read guard
/// is dropped: the queued reader must be woken (and acquires).
#[kani::proof]
#[kani::unwind(5)]
fn c10_x_rw_cancelled_writer_then_reader_woken() {
  let l = HybridRwLock::new(0u8);
  let held = l.try_read();
  assert!(held.is_some(), "C10: try_read failed on a free lock");
  let mut wf = Some(mk_write(&l));
  assert!(poll_slot(&mut wf, 0).is_pending(), "C10: write_async acquired while a read guard exists");
  let mut rf = Some(mk_read(&l));
  assert!(poll_slot(&mut rf, 1).is_pending(), "C10: read_async barged past a queued writer");
  wf = None; // cancelled, never woken
  drop(held);
  assert!(wakes(1) >= 1, "C10: lock free, queued writer cancelled, queued reader never woken (lost wakeup)");
  match poll_slot(&mut rf, 1) {
    Poll::Ready(g) => std::mem::forget(g),
    Poll::Pending => assert!(false, "C10: woken reader could not acquire a free lock"),
  }
  assert!(wakes(0) == 0, "C10: a cancelled writer future was woken");
  std::mem::forget(rf);
}

fn actor_cancel_writer_then_release(a: sched::ActorId) {
  if a.0 == 1 {
    let f = unsafe { &mut *WFP.load(Relaxed) };
    *f = None; // cancel the queued writer future
  } else {
    let g = unsafe { &mut *RGP.load(Relaxed) };
    *g = None;
  }
}

/// C10: a reader holds the lock, a writer future is queued (gating new readers), a blocking read()
/// parks behind it; then the writer future is cancelled (never woken) and the last read guard is
/// dropped: the parked reader must be woken and acquire. The two actors run once the reader is parked.
#[kani::proof]
#[kani::unwind(5)]
fn c10_x_rw_parked_reader_after_cancelled_writer() {
  let l_stack = HybridRwLock::new(0u8);
  let l: &'static HybridRwLock<u8> = unsafe { &*(&l_stack as *const HybridRwLock<u8>) };
  let mut held = l.try_read();
  assert!(held.is_some(), "C10: try_read failed on a free lock");
  let mut wf: Option<WFut> = Some(Box::pin(l.write_async()));
  assert!(poll_with(wf.as_mut().unwrap().as_mut(), 0).is_pending(), "C10: write_async acquired while a read guard exists");
  RGP.store(&mut held as *mut _, Relaxed);
  WFP.store(&mut wf as *mut _, Relaxed);
  sched::set_preempt_at(u32::MAX - 1); // the actors start only when the top thread is parked
  sched::install(actor_cancel_writer_then_release, 2, 1);
  sched::set_stuck_is_bug(true);
  let r = l.read();
  assert!(held.is_none(), "C10: a read acquired past a queued writer while the old reader still held the lock");
  assert!(wakes(0) == 0, "C10: a cancelled writer future was woken");
  kani::cover!(sched::started() == 2, "reader acquired after the cancel and the release");
  std::mem::forget(r);
  std::mem::forget(wf);
}

/// C10: a pending lock future re-polled with a different waker: the release must wake the latest one,
/// and the woken future acquires.
#[kani::proof]
#[kani::unwind(5)]
fn c10_q_mutex_repoll_other_waker() {
  let m = HybridMutex::new(0u8);
  let held = m.try_lock();
  let mut f = Some(mk_lock(&m));
  assert!(poll_slot(&mut f, 0).is_pending(), "C10: lock_async acquired a held mutex");
  assert!(poll_slot(&mut f, 1).is_pending(), "C10: lock_async acquired a held mutex");
  drop(held);
  assert!(wakes(1) >= 1, "C10: pending lock future not woken through its latest waker on release (lost wakeup)");
  match poll_slot(&mut f, 1) {
    Poll::Ready(g) => std::mem::forget(g),
    Poll::Pending => assert!(false, "C10: woken lock future could not acquire a free mutex"),
  }
  f = None;
  assert!(m.try_lock().is_none(), "C10: two mutex guards coexist");
  kani::cover!(true, "scenario ran to its end");
}
