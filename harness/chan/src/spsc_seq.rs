//! Phased symbolic programs on the sync SPSC channel (see seq.rs).
use crate::chan_seq;
use crate::common::*;
use crate::seq::*;
use fibre::spsc;

const LIFE: u32 = A_LIFE | O_NOP;

/// C04: a handle on which close() returned Ok stays closed across to_async()/to_sync(): every operation
/// of the converted handle fails, a second close reports CloseError, and the other side never sees a value
/// after Disconnected / keeps getting Closed.
#[kani::proof]
#[kani::unwind(4)]
fn c04_q_spsc_closed_sender_conversion() {
  let to_async: bool = kani::any();
  if to_async {
    let (tx, rx) = spsc::bounded_sync::<u8>(2);
    assert!(tx.close().is_ok(), "C04: first close() failed");
    let mut a = tx.to_async();
    assert!(matches!(a.try_send(5), Err(fibre::error::TrySendError::Closed(5))), "C04: closed sender operates again after to_async()");
    assert!(a.close().is_err(), "C04: second close() after conversion did not report CloseError");
    assert!(rx.try_recv() == Err(fibre::error::TryRecvError::Disconnected), "C04: receiver obtained a value from a closed sender");
    drop(a);
    assert!(rx.try_recv() == Err(fibre::error::TryRecvError::Disconnected), "C04: value after Disconnected");
  } else {
    let (tx, mut rx) = spsc::bounded_async::<u8>(2);
    assert!(tx.close().is_ok(), "C04: first close() failed");
    let s = tx.to_sync();
    assert!(matches!(s.try_send(5), Err(fibre::error::TrySendError::Closed(5))), "C04: closed sender operates again after to_sync()");
    assert!(s.send(6).is_err(), "C04: closed sender operates again after to_sync()");
    assert!(s.close().is_err(), "C04: second close() after conversion did not report CloseError");
    assert!(rx.try_recv() == Err(fibre::error::TryRecvError::Disconnected), "C04: receiver obtained a value from a closed sender");
  }
  kani::cover!(to_async, "sync to async");
  kani::cover!(!to_async, "async to sync");
}
#[kani::proof]
#[kani::unwind(4)]
fn c04_q_spsc_closed_receiver_conversion() {
  let to_async: bool = kani::any();
  if to_async {
    let (tx, rx) = spsc::bounded_sync::<u8>(2);
    assert!(tx.try_send(1).is_ok(), "C03: try_send failed");
    assert!(rx.close().is_ok(), "C04: first close() failed");
    let mut a = rx.to_async();
    assert!(a.try_recv() == Err(fibre::error::TryRecvError::Disconnected), "C04: closed receiver operates again after to_async()");
    assert!(a.close().is_err(), "C04: second close() after conversion did not report CloseError");
    assert!(matches!(tx.try_send(2), Err(fibre::error::TrySendError::Closed(2))), "C04: send succeeded after the receiver closed");
  } else {
    let (mut tx, rx) = spsc::bounded_async::<u8>(2);
    assert!(tx.try_send(1).is_ok(), "C03: try_send failed");
    assert!(rx.close().is_ok(), "C04: first close() failed");
    let s = rx.to_sync();
    assert!(s.try_recv() == Err(fibre::error::TryRecvError::Disconnected), "C04: closed receiver operates again after to_sync()");
    assert!(s.close().is_err(), "C04: second close() after conversion did not report CloseError");
    assert!(matches!(tx.try_send(2), Err(fibre::error::TrySendError::Closed(2))), "C04: send succeeded after the receiver closed");
  }
  kani::cover!(to_async, "sync to async");
  kani::cover!(!to_async, "async to sync");
}

/// C01 (unusual input): a batch receive with a huge `max` ("drain everything") returns what is buffered
/// - it must not report Empty / Disconnected because the requested size cannot be reserved.
#[kani::proof]
#[kani::unwind(5)]
fn c01_q_spsc_recv_batch_huge_max() {
  let (tx, rx) = spsc::bounded_sync::<u8>(2);
  let n: u8 = kani::any();
  kani::assume(n >= 1 && n <= 2);
  let mut i = 0u8;
  while i < n {
    assert!(tx.try_send(i).is_ok(), "C03: prefill failed");
    i += 1;
  }
  let drop_sender: bool = kani::any();
  let tx = if drop_sender { drop(tx); None } else { Some(tx) };
  let huge: bool = kani::any();
  let max = if huge { usize::MAX } else { usize::MAX / 2 };
  match rx.try_recv_batch(max) {
    Ok(v) => {
      assert!(v.len() == n as usize && v[0] == 0, "C01: batch receive returned the wrong values");
      std::mem::forget(v);
    }
    Err(_) => assert!(false, "C01: batch receive with a huge max reported Empty/Disconnected although values are buffered"),
  }
  kani::cover!(drop_sender, "sender already gone");
  std::mem::forget(rx);
  std::mem::forget(tx);
}

/// vacuity twin: must FAIL
#[kani::proof]
#[kani::unwind(3)]
fn zz_twin_must_fail() {
  let (tx, rx) = spsc::bounded_sync::<u8>(1);
  let _ = tx.try_send(1);
  let r = rx.try_recv();
  assert!(r.is_err(), "TWIN: reachability witness");
  std::mem::forget(rx);
  std::mem::forget(tx);
}
