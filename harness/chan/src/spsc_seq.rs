use crate::common::*;
use fibre::error::*;
use fibre::spsc;

/// C03 (spsc): sequential programs of try_send/try_recv; try_send Ok iff not full.
macro_rules! c03_spsc {
  ($name:ident, $cap:expr, $n:expr, $unw:expr) => {
    #[kani::proof]
    #[kani::unwind($unw)]
    fn $name() {
      let (tx, rx) = spsc::bounded_sync::<u8>($cap);
      let mut m = Fifo::<8>::new();
      let mut next: u8 = 0;
      let mut i = 0;
      while i < $n {
        if kani::any() {
          match tx.try_send(next) {
            Ok(()) => {
              assert!(m.len < $cap, "C03: try_send succeeded on a full channel");
              m.push(next);
              next += 1;
            }
            Err(TrySendError::Full(v)) => {
              assert!(m.len == $cap, "C03: try_send reported Full on a non-full channel");
              assert!(v == next, "C01: Full hands the value back");
            }
            Err(_) => assert!(false, "C03: unexpected try_send error"),
          }
        } else {
          match rx.try_recv() {
            Ok(v) => {
              assert!(m.pop() == Some(v), "C02: FIFO order");
            }
            Err(TryRecvError::Empty) => assert!(m.len == 0, "C01: Empty on non-empty channel"),
            Err(_) => assert!(false, "C04: spurious Disconnected"),
          }
        }
        assert!(tx.len() == m.len, "C03: len() equals buffered count");
        assert!(tx.len() <= tx.capacity(), "C03: len() <= capacity()");
        i += 1;
      }
      kani::cover!(m.len == $cap, "channel full at end");
      kani::cover!(next as usize > $cap, "more sends than capacity (wrap)");
      std::mem::forget(rx);
      std::mem::forget(tx);
    }
  };
}
c03_spsc!(c03_q_spsc_seq_cap2, 2, 5, 6);

/// vacuity twin: must FAIL
#[kani::proof]
#[kani::unwind(3)]
fn zz_twin_must_fail() {
  let (tx, rx) = spsc::bounded_sync::<u8>(1);
  let _ = tx.try_send(1);
  let r = rx.try_recv();
  assert!(r.is_err(), "TWIN: reachability witness");
  let mut i = 0u8;
  while i < 5 { i += 1; }
  std::mem::forget(rx);
  std::mem::forget(tx);
}
