//! Phased symbolic programs on the sync SPSC channel (see seq.rs).
use crate::chan_seq;
use crate::common::*;
use crate::seq::*;
use fibre::spsc;

const LIFE: u32 = A_LIFE | O_NOP;

/// vacuity twin: must FAIL
#[kani::proof]
#[kani::unwind(3)]
fn zz_twin_must_fail() {
  let (tx, rx) = spsc::bounded_sync::<u8>(1);
  let _ = tx.try_send(1);
  let r = rx.try_recv();
  assert!(r.is_err(), "TWIN: reachability witness");
  std::mem::forget(rx);
  std::mem::forget(tx);
}
