//! Shared harness utilities: reference FIFO model, drop-counting payload, wakers.
use std::sync::atomic::{AtomicU32, AtomicU8, Ordering::Relaxed};
use std::task::{RawWaker, RawWakerVTable, Waker};

/// Reference FIFO of unique ids (values are a running counter, so each is unique).
pub struct Fifo<const N: usize> {
  pub buf: [u8; N],
  pub head: usize,
  pub len: usize,
}
impl<const N: usize> Fifo<N> {
  pub fn new() -> Self {
    Self { buf: [0; N], head: 0, len: 0 }
  }
  pub fn push(&mut self, v: u8) {
    assert!(self.len < N, "harness model overflow");
    self.buf[(self.head + self.len) & (N - 1)] = v; // N is a power of two
    self.len += 1;
  }
  pub fn pop(&mut self) -> Option<u8> {
    if self.len == 0 {
      return None;
    }
    let v = self.buf[self.head];
    self.head = (self.head + 1) & (N - 1);
    self.len -= 1;
    Some(v)
  }
  pub fn front(&self) -> Option<u8> {
    if self.len == 0 { None } else { Some(self.buf[self.head]) }
  }
}

pub const MAX_TAGS: usize = 16;
pub static DROPS: [AtomicU8; MAX_TAGS] = [const { AtomicU8::new(0) }; MAX_TAGS];

/// Payload with an observable Drop: one counter per id.
#[derive(Debug, PartialEq, Eq)]
pub struct Tag(pub u8);
impl Drop for Tag {
  fn drop(&mut self) {
    let i = self.0 as usize;
    if i < MAX_TAGS {
      DROPS[i].store(DROPS[i].load(Relaxed) + 1, Relaxed);
    }
  }
}
pub fn drops(i: u8) -> u8 {
  DROPS[i as usize].load(Relaxed)
}

/// Counting wakers: waker `i` increments WAKES[i].
pub const MAX_WAKERS: usize = 4;
pub static WAKES: [AtomicU32; MAX_WAKERS] = [const { AtomicU32::new(0) }; MAX_WAKERS];
static VT: RawWakerVTable = RawWakerVTable::new(w_clone, w_wake, w_wake, w_drop);
unsafe fn w_clone(p: *const ()) -> RawWaker {
  RawWaker::new(p, &VT)
}
unsafe fn w_wake(p: *const ()) {
  let i = p as usize;
  if i < MAX_WAKERS {
    WAKES[i].store(WAKES[i].load(Relaxed) + 1, Relaxed);
  }
}
unsafe fn w_drop(_p: *const ()) {}
pub fn waker(i: usize) -> Waker {
  unsafe { Waker::from_raw(RawWaker::new(i as *const (), &VT)) }
}
pub fn wakes(i: usize) -> u32 {
  WAKES[i].load(Relaxed)
}


/// Calls `f(i)` for the solver-chosen `i <= max` with `i` a constant on each path (concrete schedule /
/// parameter per path, all of them in one SAT problem).
#[cfg(kani)]
pub fn with_pick<F: FnMut(u32)>(max: u32, mut f: F) {
  let x: u32 = kani::any();
  kani::assume(x <= max);
  let mut i = 0;
  while i <= max {
    if x == i {
      f(i);
      return;
    }
    i += 1;
  }
}
