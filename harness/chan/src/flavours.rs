//! Adapters: the generic driver's traits for every concrete sync handle type.
use fibre::{mpmc, mpsc, spsc};

crate::impl_tx!(spsc::BoundedSyncSender<T>, cap = bounded, dup = no);
crate::impl_rx!(spsc::BoundedSyncReceiver<T>, dup = no);

crate::impl_tx!(mpsc::BoundedSyncSender<T>, cap = bounded, dup = yes);
crate::impl_rx!(mpsc::BoundedSyncReceiver<T>, dup = no);
crate::impl_tx!(mpsc::UnboundedSyncSender<T>, cap = unbounded, dup = yes);
crate::impl_rx!(mpsc::UnboundedSyncReceiver<T>, dup = no);

crate::impl_tx!(mpmc::Sender<T>, cap = bounded, dup = yes);
crate::impl_rx!(mpmc::Receiver<T>, dup = yes);
crate::impl_tx!(mpmc::UnboundedSyncSender<T>, cap = unbounded, dup = yes);
crate::impl_rx!(mpmc::UnboundedSyncReceiver<T>, dup = yes);
