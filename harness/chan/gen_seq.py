#!/usr/bin/env python3
"""Generates src/seq_gen.rs: the phased sequential harness instantiations per flavour x property x operation group."""
FLAV = {
  # name: (ctor for u8, ctor for Tag, cap expr, cap int or None, clone_tx, clone_rx, tier)
  "spsc":   ("spsc::bounded_sync::<u8>({c})", "spsc::bounded_sync::<Tag>({c})", True, False, False, "q"),
}
out = []
def emit(name, p, T, new, cap, multi, k, life, nt, ops, unwind, drain, covers):
  cov = ", ".join('|m| %s => "%s"' % (e, d) for e, d in covers)
  out.append(f"chan_seq!({name}, {p}, mode=merge, T={T}, new={new}, cap={cap}, multi={multi}, k={k}, life={life}, nt={nt}, ops={ops},\n  unwind={unwind}, drain={drain}, covers=[{cov}]);")

for f, (c8, ctag, bounded, ctx, crx, tier) in FLAV.items():
  c = 2
  new8 = c8.format(c=c); newt = ctag.format(c=c)
  cap = f"Some({c})" if bounded else "None"
  k = 2 if bounded else 2
  unw = 5
  drain = c + 1 if bounded else 5
  full = [("m.n_full > 0", "a send reported Full")] if bounded else []
  t = tier
  # C01
  emit(f"c01_{t}_{f}_send", 1, "u8", new8, cap, "false", k, 0, 2, "G_SEND | O_TRY_RECV", unw, drain, full + [("m.recvd != 0", "a value was received")])
  emit(f"c01_{t}_{f}_sbatch", 1, "u8", new8, cap, "false", k, 0, 1, "G_SBATCH", unw, drain, ([("m.n_partial > 0", "a batch was partially sent")] if bounded else [("m.next > 2", "a batch was sent")]))
  emit(f"c01_t_{f}_sbatch_mut", 1, "u8", new8, cap, "false", 1 if bounded else 1, 0, 1, "G_SBATCH_MUT", unw, drain, [("m.next > 1", "an in-place batch was submitted")])
  emit(f"c01_{t}_{f}_recv", 1, "u8", new8, cap, "false", k, 0, 2, "G_RECV", unw, drain, [("m.n_empty > 0", "a receive reported Empty/Timeout"), ("m.recvd != 0", "a value was received")])
  emit(f"c01_{t}_{f}_rbatch", 1, "u8", new8, cap, "false", k, 0, 1, "G_RBATCH", unw, drain, [("m.n_batch2 > 0", "a batch receive returned two values")])
  # C02
  emit(f"c02_{t}_{f}_singles", 2, "u8", new8, cap, "false", k, 0, 2, "G_SEND | G_RECV", unw, drain, [("m.next > 2", "more values than capacity were created")])
  emit(f"c02_{t}_{f}_batches", 2, "u8", new8, cap, "false", k, 0, 2, "O_TRY_SEND_BATCH | O_TRY_RECV_BATCH", unw, drain, [("m.n_batch2 > 0", "a batch receive returned two values")])
  emit(f"c02_t_{f}_blocking_batches", 2, "u8", new8, cap, "false", 1, 0, 2, "O_SEND_BATCH | O_RECV_BATCH", unw, drain, [("m.recvd != 0", "a value was received")])
  if bounded:
    new1_ = c8.format(c=1); new3_ = c8.format(c=3)
    emit(f"c02_{t}_{f}_cap1_mixed", 2, "u8", new1_, "Some(1)", "false", 2, 0, 2, "O_TRY_SEND | O_TRY_RECV | O_TRY_SEND_BATCH | O_TRY_RECV_BATCH", unw, 2, [("m.next > 2", "the one-slot ring wrapped"), ("m.recvd != 0", "a value was received")])
    emit(f"c02_{t}_{f}_cap3_recv_batch", 2, "u8", new3_, "Some(3)", "false", 3, 0, 1, "O_TRY_RECV_BATCH", 6, 4, [("m.n_batch2 > 0", "a batch receive returned two values"), ("m.next > 3", "the ring wrapped")])
    emit(f"c02_{t}_{f}_cap3_send_batch", 2, "u8", new3_, "Some(3)", "false", 3, 0, 1, "O_TRY_SEND_BATCH", 6, 4, [("m.next > 4", "the ring wrapped")])
  # C03 (bounded only)
  if bounded:
    emit(f"c03_{t}_{f}_send", 3, "u8", new8, cap, "false", 3, 0, 2, "G_SEND | O_TRY_RECV", unw, 0, [("m.n_full > 0", "a send reported Full"), ("m.q.len == 2", "channel full at the end")])
    emit(f"c03_{t}_{f}_sbatch", 3, "u8", new8, cap, "false", k, 0, 1, "G_SBATCH", unw, 0, [("m.n_partial > 0", "a batch was partially sent"), ("m.n_full > 0", "a batch reported Full")])
    emit(f"c03_q_{f}_sbatch_mut", 3, "u8", new8, cap, "false", 1, 0, 1, "G_SBATCH_MUT", unw, 0, [("m.next > 1", "an in-place batch was submitted")])
    new1 = c8.format(c=1)
    emit(f"c03_{t}_{f}_cap1", 3, "u8", new1, "Some(1)", "false", 2, 0, 2, "O_TRY_SEND | O_TRY_SEND_BATCH | O_TRY_RECV", unw, 0, [("m.n_full > 0", "a send reported Full")])
    new3 = c8.format(c=3)
    emit(f"c03_q_{f}_cap3", 3, "u8", new3, "Some(3)", "false", 3, 0, 2, "O_TRY_SEND | O_TRY_SEND_BATCH | O_TRY_RECV | O_TRY_RECV_BATCH", 6, 0, [("m.n_full > 0", "a send reported Full")])
  # C04: one lifecycle event on one side, then each operation group
  TXL = "O_CLOSE_TX | O_DROP_TX | O_NOP"; RXL = "O_CLOSE_RX | O_DROP_RX | O_NOP"
  emit(f"c04_{t}_{f}_send_txlife", 4, "u8", new8, cap, "false", 1, TXL, 1, "G_SEND | O_CLOSE_TX", unw, drain, [("m.n_closed > 0", "a send on a closed handle reported Closed"), ("m.n_close_err > 0", "second close reported CloseError")])
  emit(f"c04_{t}_{f}_send_rxlife", 4, "u8", new8, cap, "false", k, RXL, 1, "G_SEND", unw, 0, [("m.n_closed > 0", "a send reported Closed after the receiver went away")])
  emit(f"c04_{t}_{f}_sbatch_txlife", 4, "u8", new8, cap, "false", 1, "O_CLOSE_TX | O_NOP", 1, "G_SBATCH", unw, drain, [("m.n_closed > 0", "a batch send on a closed handle reported Closed")])
  emit(f"c04_{t}_{f}_sbatch_rxlife", 4, "u8", new8, cap, "false", 1, RXL, 1, "G_SBATCH", unw, 0, [("m.n_closed > 0", "a batch send reported Closed after the receiver went away")])
  emit(f"c04_t_{f}_sbatch_mut_txlife", 4, "u8", new8, cap, "false", 1, "O_CLOSE_TX | O_NOP", 1, "G_SBATCH_MUT", unw, drain, [("m.n_closed > 0", "an in-place batch send on a closed handle reported Closed")])
  emit(f"c04_t_{f}_sbatch_mut_rxlife", 4, "u8", new8, cap, "false", 1, RXL, 1, "G_SBATCH_MUT", unw, 0, [("m.n_closed > 0", "an in-place batch send reported Closed after the receiver went away")])
  emit(f"c04_{t}_{f}_recv_txlife", 4, "u8", new8, cap, "false", k, TXL, 2, "G_RECV", unw, drain, [("m.n_disc > 0", "a receive reported Disconnected"), ("m.n_disc > 0 && m.recvd != 0", "values drained before Disconnected")])
  emit(f"c04_{t}_{f}_recv_rxlife", 4, "u8", new8, cap, "false", 1, "O_CLOSE_RX | O_NOP", 1, "G_RECV | O_CLOSE_RX", unw, 0, [("m.n_disc > 0", "a closed receiver reported Disconnected"), ("m.n_close_err > 0", "second close reported CloseError")])
  emit(f"c04_{t}_{f}_rbatch_txlife", 4, "u8", new8, cap, "false", k, TXL, 1, "G_RBATCH", unw, drain, [("m.n_disc > 0", "a batch receive reported Disconnected")])
  emit(f"c04_{t}_{f}_rbatch_rxlife", 4, "u8", new8, cap, "false", 1, "O_CLOSE_RX | O_NOP", 1, "G_RBATCH", unw, 0, [("m.n_disc > 0", "a closed receiver reported Disconnected")])
  if ctx:
    lifec = "A_LIFE | O_CLONE_TX | O_NOP" + (" | O_CLONE_RX" if crx else "")
    emit(f"c04_{t}_{f}_clones", 4, "u8", new8, cap, "true", 1, lifec, 2, "O_TRY_SEND | O_TRY_RECV | A_LIFE", unw, drain, [("m.tx[1] != 0 || m.rx[1] != 0", "a clone exists at the end"), ("m.n_disc > 0", "Disconnected observed")])
  life = "A_LIFE | O_NOP"
  # C09
  emit(f"c09_{t}_{f}_try", 9, "Tag", newt, cap, "false", k, life, 1, "O_TRY_SEND | O_TRY_SEND_BATCH | O_TRY_RECV | O_TRY_RECV_BATCH", unw, 0, [("m.next > 2", "more values than capacity were created")])
  emit(f"c09_{t}_{f}_singles", 9, "Tag", newt, cap, "false", k, life, 2, "O_TRY_SEND | O_TRY_RECV | A_LIFE", unw, 0, [("m.n_closed > 0", "a send reported Closed (value handed back)")])
  if bounded:
    emit(f"c09_{t}_{f}_cap3_wrap", 9, "Tag", ctag.format(c=3), "Some(3)", "false", 3, "O_NOP", 1, "O_TRY_SEND | O_TRY_RECV", 6, 0, [("m.next > 3", "the ring wrapped"), ("m.q.len >= 2", "at least two values buffered at teardown")])
  emit(f"c09_t_{f}_mut_batch", 9, "Tag", newt, cap, "false", 0, "O_CLOSE_RX | O_DROP_RX | O_NOP", 1, "O_TRY_SEND_BATCH_MUT | O_SEND_BATCH", unw, 0, [("m.n_closed > 0", "a batch send reported Closed")])

  if bounded:
    # deeper bounds (thorough tier): capacity 4 (physical 4) and 5 (non-power-of-two, physical 8), every fill level 0..cap and one rotation
    MIX = "O_TRY_SEND | O_TRY_RECV | O_TRY_SEND_BATCH | O_TRY_RECV_BATCH"
    for cc in (4, 5):
      emit(f"c02_t_{f}_cap{cc}_mixed", 2, "u8", c8.format(c=cc), f"Some({cc})", "false", cc, 0, 2, MIX, cc + 6, cc + 1, [("m.next > %d" % cc, "the ring wrapped"), ("m.n_batch2 > 0", "a batch receive returned two values")])
      emit(f"c03_t_{f}_cap{cc}", 3, "u8", c8.format(c=cc), f"Some({cc})", "false", cc, 0, 2, MIX, cc + 6, 0, [("m.n_full > 0", "a send reported Full"), ("m.n_partial > 0", "a batch was partially sent")])

hdr = '''//! GENERATED by gen_seq.py - phased sequential programs per flavour (see seq.rs).
use crate::chan_seq;
use crate::common::*;
use crate::seq::*;
use fibre::{mpmc, mpsc, spsc};

'''
open("src/seq_gen.rs", "w").write(hdr + "\n".join(out) + "\n")
print(len(out), "harnesses")
